"""pyvc - E1: verification-condition generation from the *real* pgmpy source (DESIGN.md §1).

The function under contract is located by qualified name in the working tree, parsed with
`ast` on every run and executed symbolically, path by path, over z3 terms:

  hashable names      -> uninterpreted sort Atom (string literals: pairwise distinct constants)
  int / bool / float  -> Int / Bool / Real (mathematical)
  tuples              -> z3 datatypes per signature
  set/list/frozenset  -> characteristic arrays  elem -> Bool   (lists are abstracted to their
                         membership predicate; len()/indexing of an abstract list leaves the subset)
  dict                -> (domain array, value array)
  objects             -> python-level records with identity (aliasing is preserved when paths fork)
  networkx graphs     -> (nodes: Atom->Bool, E: Atom x Atom -> Bool) + the library contracts in lib.py

Loops are cut by invariants from the sidecar contract (init / preserve / exit obligations),
except *accumulator loops* (`for x in S: [if g(x):] T.add(f(x))`), which are summarised.
Calls to functions that have a contract use the contract (assert pre, havoc frame, assume post);
other repo functions are inlined; anything else must have a library contract or the function
is reported *undecided* (never a violation).

An obligation is   axioms /\\ path-condition  |=  goal ;  verdict discharged / refuted / unknown.
"""
from __future__ import annotations

import ast
import copy
import hashlib
import itertools
import os
import time
from pathlib import Path

import z3

Atom = z3.DeclareSort("Atom")
Opaque = z3.DeclareSort("Opaque")
B = z3.BoolSort()
I = z3.IntSort()
R = z3.RealSort()

Z3_TIMEOUT_MS = int(os.environ.get("PYVC_TIMEOUT_MS", "30000"))


class Unsupported(Exception):
    """The function left the modelled subset -> undecided, never a violation."""


class NeedSplit(Exception):
    def __init__(self, cond):
        self.cond = cond
        self.at = _fresh.value   # fresh-name counter at the split point


class Raised(Exception):
    """a contracted callee raises on this path (caller contract lists it under `propagates`): the statement ends with that exception"""

    def __init__(self, exc):
        self.exc = exc


class _Counter:
    """fresh-name counter; re-executions of one statement (path splits) replay the same names, see Executor.exec_stmt"""

    def __init__(self):
        self.value = 0
        self.jumps = {}

    def __next__(self):
        if self.value in self.jumps:
            self.value = self.jumps[self.value]
        self.value += 1
        return self.value - 1


_fresh = _Counter()


def fresh(name, sort):
    return z3.Const(f"{name}!{next(_fresh)}", sort)


# ----------------------------------------------------------------------------- sorts
_tuple_sorts = {}


def tuple_sort(sorts):
    key = tuple(str(s) for s in sorts)
    if key not in _tuple_sorts:
        name = "Tup_" + "_".join(k.replace(" ", "").replace("(", "").replace(")", "") for k in key)
        d = z3.Datatype(name)
        d.declare("mk", *[(f"p{i}", s) for i, s in enumerate(sorts)])
        _tuple_sorts[key] = d.create()
    return _tuple_sorts[key]


def is_tuple_sort(s):
    return any(s.eq(t) for t in _tuple_sorts.values())


def set_sort(esort):
    return z3.ArraySort(esort, B)


def empty_set(esort):
    return z3.K(esort, z3.BoolVal(False))


_str_consts = {}


def str_const(s):
    if s not in _str_consts:
        _str_consts[s] = z3.Const("str:" + s, Atom)
    return _str_consts[s]


_occ_cache = {}


def _str_occurrences(e):
    """names of string-literal constants occurring in e (memoised; the term is pinned in the cache)."""
    k = e.get_id()
    hit = _occ_cache.get(k)
    if hit is not None:
        return hit[1]
    if z3.is_quantifier(e):
        r = _str_occurrences(e.body())
    elif z3.is_app(e):
        if e.num_args() == 0:
            nm = e.decl().name()
            r = frozenset([nm]) if nm.startswith("str:") else frozenset()
        else:
            r = frozenset().union(*[_str_occurrences(c) for c in e.children()])
    else:
        r = frozenset()
    _occ_cache[k] = (e, r)
    return r


def distinct_axioms(formulas=None):
    """string literals are pairwise distinct names; only the literals occurring in `formulas` are mentioned."""
    if formulas is None:
        cs = list(_str_consts.values())
    else:
        names = set()
        for f in formulas:
            names |= _str_occurrences(f)
        cs = [c for n, c in _str_consts.items() if "str:" + n in names]
    return [z3.Distinct(*cs)] if len(cs) > 1 else []


# ----------------------------------------------------------------------------- values
class V:
    pass


class Scalar(V):
    def __init__(self, z, pytype=None):
        self.z = z
        self.pytype = pytype  # 'str' | 'int' | None (hint for isinstance on atoms)

    def __repr__(self):
        return f"Scalar({self.z})"


class LiteralTable(V):
    """{"const": expr, ...} dict literal, unevaluated (e.g. a name -> class dispatch table that the analysed path never consults)"""

    def __init__(self, node):
        self.node = node


class NoneV(V):
    def __repr__(self):
        return "NoneV"


NONE = NoneV()


class TupleV(V):
    def __init__(self, items):
        self.items = list(items)


class Coll(V):
    """set / frozenset / list / tuple(seq) / iterator, abstracted to its membership array."""

    def __init__(self, kind, esort, mem, items=None, nodup=None):
        self.kind = kind
        self.esort = esort
        self.mem = mem
        self.items = items  # python list of V when concretely known (literal lists)
        self.nodup = nodup if nodup is not None else kind in ("set", "frozenset")
        self.len_z = None  # symbolic length when known although the order/multiplicity is abstracted
        self.ord = None  # order token (z3 term): the unknown iteration order this collection would be listed in
        self.nodup_z = None  # z3 Bool "holds no duplicates" for lists whose python-level flag was lost (loops)
        self.seq = None  # (at, idx): sequence view of an abstract list/tuple - at: Int -> elem, idx: elem -> Int (see Executor.seq_of)

    def __repr__(self):
        return f"Coll({self.kind},{self.esort})"


class DictV(V):
    def __init__(self, ksort, vkind, dom, val, vsort=None):
        self.ksort, self.vkind, self.dom, self.val, self.vsort = ksort, vkind, dom, val, vsort
        # vkind: 'scalar' (val: Array k->vsort) | ('set', esort) (val: Array k->Array(esort,Bool))


class Obj(V):
    def __init__(self, cls, fields=None):
        self.cls = cls
        self.fields = fields or {}

    def __repr__(self):
        return f"Obj({self.cls})"


class Closure(V):
    def __init__(self, fdef, env, name=None, wrapper=None):
        self.fdef, self.env, self.name, self.wrapper = fdef, env, name, wrapper


class OpaqueFn(V):
    """a callable parameter / method treated as an uninterpreted pure function of its (encoded) arguments."""

    def __init__(self, name, rsort, pure=True):
        self.name, self.rsort, self.pure = name, rsort, pure
        self.decl = None


class KwArgs(V):
    """**kwargs captured at function entry (concrete keys)."""

    def __init__(self, d):
        self.d = dict(d)


class BoundMethod(V):
    def __init__(self, recv, name):
        self.recv, self.name = recv, name


class ModuleV(V):
    def __init__(self, name):
        self.name = name


class ClassV(V):
    def __init__(self, name):
        self.name = name


def z3_of(v):
    """z3 term of a value that can be an element of a collection."""
    if isinstance(v, Scalar):
        return v.z
    if isinstance(v, TupleV):
        zs = [z3_of(i) for i in v.items]
        ts = tuple_sort([z.sort() for z in zs])
        return ts.mk(*zs)
    if isinstance(v, Coll) and v.kind == "frozenset":
        return v.mem
    if isinstance(v, Coll) and v.kind in ("tuple", "list") and v.items is not None and len(v.items) >= 2:
        return z3_of(TupleV(v.items))  # a literal pair/triple used as an element ([parent, child])
    raise Unsupported(f"value {v!r} has no scalar encoding")


def val_of(z, hint=None):
    s = z.sort()
    if is_tuple_sort(s):
        n = s.constructor(0).arity()
        return TupleV([val_of(s.accessor(0, i)(z)) for i in range(n)])
    if isinstance(s, z3.ArraySortRef) and s.range() == B:
        return Coll("frozenset", s.domain(), z)
    return Scalar(z)


def deq(a, b):
    """extensional equality: arrays pointwise, datatypes field-wise (avoids z3's incomplete
    equality reasoning on lambda-arrays nested in datatypes)."""
    s = a.sort()
    if isinstance(s, z3.ArraySortRef):
        if s.arity() == 1 if hasattr(s, "arity") else True:
            try:
                x = fresh("x", s.domain())
                return z3.ForAll([x], deq(a[x], b[x]))
            except Exception:
                return a == b
        return a == b
    if isinstance(s, z3.DatatypeSortRef) and s.num_constructors() == 1:
        c = s.constructor(0)
        if any(isinstance(c.domain(i), (z3.ArraySortRef, z3.DatatypeSortRef)) for i in range(c.arity())):
            return z3.And(*[deq(s.accessor(0, i)(a), s.accessor(0, i)(b)) for i in range(c.arity())])
    return a == b


def seteq(a, b, esort):
    x = fresh("x", esort)
    return z3.ForAll([x], a[x] == b[x])


def subset(a, b, esort):
    x = fresh("x", esort)
    return z3.ForAll([x], z3.Implies(a[x], b[x]))


def mk_set(esort, pred):
    """{x | pred(x)} as a lambda array."""
    x = fresh("x", esort)
    return z3.Lambda([x], pred(x))


def union(a, b, esort):
    return mk_set(esort, lambda x: z3.Or(a[x], b[x]))


def inter(a, b, esort):
    return mk_set(esort, lambda x: z3.And(a[x], b[x]))


def diff(a, b, esort):
    return mk_set(esort, lambda x: z3.And(a[x], z3.Not(b[x])))


def singleton(e):
    return z3.Store(empty_set(e.sort()), e, True)


def nonempty(a, esort):
    x = fresh("x", esort)
    return z3.Exists([x], a[x])


# ----------------------------------------------------------------------------- state
class State:
    def __init__(self):
        self.env = {}
        self.pc = []  # list of z3 Bool (path condition + local definitions)
        self.ghost = {}
        self.trace = []  # human-readable branch decisions
        self.loop_ctx = []
        self.args = {}

    def fork(self):
        memo = {}
        s = copy.deepcopy(self, memo)
        return s

    def assume(self, f, why=None):
        self.pc.append(f)
        if why:
            self.trace.append(why)


_LABEL_MEMBERS = None


def label_members(z):
    """set(label) for a compound node label (clique): an uninterpreted function of the label"""
    global _LABEL_MEMBERS
    if _LABEL_MEMBERS is None:
        _LABEL_MEMBERS = z3.Function("label_members", Atom, set_sort(Atom))
    return _LABEL_MEMBERS(z)


class Env(dict):
    """local environment of the function under verification.  `aliases` maps a local name used by the sidecar contract to the name
    the current source gives the local in the same position (see Executor.local_aliases): a contract written against `ancestors_list`
    keeps evaluating when the source renames it.  Only lookups of names that do not exist are redirected."""
    aliases = {}
    hits = None   # set shared by all copies: the re-mapped names that were actually read

    def __missing__(self, k):
        a = self.aliases.get(k)
        if a is not None and dict.__contains__(self, a):
            if self.hits is not None:
                self.hits.add(k)
            return dict.__getitem__(self, a)
        raise KeyError(k)

    def get(self, k, default=None):
        if dict.__contains__(self, k):
            return dict.__getitem__(self, k)
        a = self.aliases.get(k)
        if a is not None and dict.__contains__(self, a):
            if self.hits is not None:
                self.hits.add(k)
            return dict.__getitem__(self, a)
        return default

    def __deepcopy__(self, memo):
        e = Env((k, copy.deepcopy(v, memo)) for k, v in self.items())
        e.aliases, e.hits = self.aliases, self.hits
        return e


def local_order(fdef):
    """names assigned in the function body, in order of first assignment (parameters excluded)"""
    params = {a.arg for a in fdef.args.posonlyargs + fdef.args.args + fdef.args.kwonlyargs}
    for a in (fdef.args.vararg, fdef.args.kwarg):
        if a is not None:
            params.add(a.arg)
    names = sorted((n for n in ast.walk(fdef) if isinstance(n, ast.Name) and isinstance(n.ctx, ast.Store)),
                   key=lambda n: (n.lineno, n.col_offset))
    out = []
    for n in names:
        if n.id not in params and n.id not in out:
            out.append(n.id)
    return out


def local_aliases(baseline, current):
    """contract-time local names -> current local names, for names that disappeared; blocks of renamed locals are matched by position
    between unchanged anchors (difflib), equal-length blocks only"""
    import difflib
    if baseline == current:
        return {}
    out = {}
    for tag, i1, i2, j1, j2 in difflib.SequenceMatcher(a=baseline, b=current, autojunk=False).get_opcodes():
        if tag == "replace" and i2 - i1 == j2 - j1:
            for a, b in zip(baseline[i1:i2], current[j1:j2]):
                if a not in current and b not in baseline:
                    out[a] = b
    return out


_LOCALS_BASELINE = None


def locals_baseline():
    global _LOCALS_BASELINE
    if _LOCALS_BASELINE is None:
        import json
        p = Path(__file__).resolve().parents[2] / "contracts" / "locals_baseline.json"
        _LOCALS_BASELINE = json.loads(p.read_text()) if p.exists() else {}
    return _LOCALS_BASELINE


def _z3_deepcopy(self, memo):
    return self


for _cls in (z3.AstRef, z3.ExprRef, z3.SortRef, z3.FuncDeclRef, z3.DatatypeSortRef, z3.ArrayRef, z3.BoolRef, z3.ArithRef,
             z3.QuantifierRef, z3.DatatypeRef, z3.ArraySortRef):
    _cls.__deepcopy__ = _z3_deepcopy
ast.AST.__deepcopy__ = lambda self, memo: self


# ----------------------------------------------------------------------------- source access
class Source:
    def __init__(self, repo):
        self.repo = Path(repo)
        self.cache = {}

    def module(self, rel):
        if rel not in self.cache:
            txt = (self.repo / rel).read_text()
            self.cache[rel] = (ast.parse(txt), txt)
        return self.cache[rel]

    def find(self, rel, qual):
        """qual like 'DAG.active_trail_nodes' or 'Independencies.closure.<locals>.sg3'."""
        tree, txt = self.module(rel)
        node = tree
        for part in [p for p in qual.split(".") if p != "<locals>"]:
            found = None
            for ch in ast.walk(node) if isinstance(node, (ast.FunctionDef,)) else ast.iter_child_nodes(node):
                if isinstance(ch, (ast.FunctionDef, ast.ClassDef)) and ch.name == part and ch is not node:
                    found = ch
                    break
            if found is None:
                raise Unsupported(f"{rel}::{qual}: '{part}' not found in current source")
            node = found
        seg = ast.get_source_segment(txt, node) or ""
        # hash of the body without docstring/comments (ast dump)
        body = node.body
        if body and isinstance(body[0], ast.Expr) and isinstance(getattr(body[0], "value", None), ast.Constant) and isinstance(body[0].value.value, str):
            body = body[1:]
        sha = hashlib.sha256("\n".join(ast.dump(b) for b in body).encode()).hexdigest()[:16]
        return node, sha, (node.lineno, node.end_lineno)


# ----------------------------------------------------------------------------- obligations
class Obligation:
    def __init__(self, name, hyps, goal, trace=None, kind="assert"):
        self.name, self.hyps, self.goal, self.trace, self.kind = name, list(hyps), goal, list(trace or []), kind
        self.verdict = None
        self.backend = None
        self.secs = 0.0
        self.model = None
        self.size = len(self.hyps) + 1


def neg_skolem(goal):
    """not(goal) with top-level universal quantifiers (also under conjunction/implication) skolemised by hand."""
    if z3.is_quantifier(goal) and goal.is_forall():
        vs = [fresh(f"sk_{goal.var_name(i)}", goal.var_sort(i)) for i in range(goal.num_vars())]
        return neg_skolem(z3.substitute_vars(goal.body(), *reversed(vs)))
    if z3.is_and(goal):
        return z3.Or(*[neg_skolem(c) for c in goal.children()])
    if z3.is_implies(goal):
        return z3.And(goal.arg(0), neg_skolem(goal.arg(1)))
    return z3.Not(goal)


PATH_PAIRS = []   # (edge relation term, Path function) pairs registered by the library theory (vf/pyvc/lib.py: PathTheory.path)


def nonstandard_paths(mdl):
    """names of the Path functions that, in this counter-model, hold for a pair of names the edge relation does not connect.  Path_E is
    axiomatised as *a* reflexive relation closed under E-steps (leastness only through listed induction instances), so z3 may answer
    with a model in which Path is larger than the reflexive-transitive closure: such a counter-model says nothing about the code."""
    try:
        U = mdl.get_universe(Atom)
        if not U or len(U) > 14:
            return []
        bad = []
        for E, P in PATH_PAIRS:
            if mdl.get_interp(P) is None:
                continue
            n = len(U)
            reach = [[i == j or z3.is_true(mdl.eval(E[U[i], U[j]], model_completion=True)) for j in range(n)] for i in range(n)]
            for k in range(n):
                for i in range(n):
                    if reach[i][k]:
                        for j in range(n):
                            if reach[k][j]:
                                reach[i][j] = True
            if any(z3.is_true(mdl.eval(P(U[i], U[j]), model_completion=True)) and not reach[i][j] for i in range(n) for j in range(n)):
                bad.append(P.name())
        return bad
    except Exception:
        return []


def solve(hyps, goal, timeout_ms=None, want_model=True):
    """Is hyps |= goal ?  returns (verdict, model_text, secs, backend).
    order: z3 default (proof or counter-model) -> counter-model search over 2..3 names -> z3 with e-matching only
    -> counter-model search over 4 names.  `unknown` is never turned into a verdict."""
    t0 = time.time()
    ver = "z3-" + z3.get_version_string()
    dax = distinct_axioms(list(hyps) + [goal])
    budget = timeout_ms or Z3_TIMEOUT_MS

    def attempt(mbqi, tmo):
        s = z3.Solver()
        s.set("timeout", tmo)
        if not mbqi:
            s.set("smt.mbqi", False)
            s.set("smt.random_seed", 7)
        for h in hyps:
            s.add(h)
        for h in dax:
            s.add(h)
        s.add(z3.Not(goal))
        return s, s.check()

    def bounded(k, tmo):
        s3 = z3.Solver()
        s3.set("timeout", tmo)
        cs = [z3.Const(f"u{i}", Atom) for i in range(k)]
        cache, aterms = {}, {}
        try:
            for h in list(hyps) + dax + [neg_skolem(goal)]:
                s3.add(expand_atoms(h, cs, cache, aterms))
        except Exception:
            if os.environ.get("PYVC_DEBUG"):
                import traceback
                traceback.print_exc()
            return None
        # every quantifier over names is now ground; a model restricted to {u_i} is a model of the
        # original formulas provided every name-valued ground term denotes one of the u_i
        for c in list(aterms.values()):
            if not has_quant(c):
                s3.add(z3.Or(*[c == u for u in cs]))
        if s3.check() == z3.sat:
            try:
                m = str(s3.model())[:6000]
            except Exception:
                m = "<model unavailable>"
            return f"(universe bounded to {k} names)\n" + m
        return None

    s, r = attempt(True, budget // 2)
    if r == z3.unsat:
        return "discharged", None, time.time() - t0, ver
    if r == z3.sat:
        m = None
        if want_model:
            try:
                m = str(s.model())[:6000]
            except Exception:
                m = "<model unavailable>"
        try:
            ns = nonstandard_paths(s.model())
        except Exception:
            ns = []
        if ns:
            # not a counter-example of the code: a candidate only (needs a failing input from a bounded group, like refuted-bounded)
            return ("refuted-bounded", f"(non-standard model: {', '.join(ns)} exceeds the reflexive-transitive closure of its edge relation)\n{m}",
                    time.time() - t0, ver + "(nonstandard-path-model)")
        return "refuted", m, time.time() - t0, ver
    reason = s.reason_unknown()
    if want_model:
        for k in (2, 3):
            m = bounded(k, 6000)
            if m is not None:
                return "refuted-bounded", m, time.time() - t0, ver + "(bounded-universe)"
    s2, r2 = attempt(False, budget)
    if r2 == z3.unsat:
        return "discharged", None, time.time() - t0, ver + "(ematching)"
    if want_model:
        m = bounded(4, 10000)
        if m is not None:
            return "refuted-bounded", m, time.time() - t0, ver + "(bounded-universe)"
    return "unknown", reason, time.time() - t0, ver


_hbv_cache = {}


def has_bound_var(e):
    k = e.get_id()
    hit = _hbv_cache.get(k)
    if hit is not None:
        return hit[1]
    if z3.is_var(e):
        r = True
    elif z3.is_quantifier(e):
        r = False  # closed sub-terms only matter at top level; bodies are handled after instantiation
    elif z3.is_app(e):
        r = any(has_bound_var(c) for c in e.children())
    else:
        r = False
    _hbv_cache[k] = (e, r)
    return r


def expand_atoms(f, consts, cache=None, atom_terms=None):
    """replace quantifiers over Atom by finite conjunctions/disjunctions over `consts`
    (equivalent under the axiom that the universe of names is exactly `consts`)."""
    cache = {} if cache is None else cache

    def values(sort):
        if sort == Atom:
            return list(consts)
        if sort == B:
            return [z3.BoolVal(True), z3.BoolVal(False)]
        if isinstance(sort, z3.DatatypeSortRef) and sort.num_constructors() == 1:
            c = sort.constructor(0)
            doms = [values(c.domain(i)) for i in range(c.arity())]
            if any(d is None for d in doms):
                return None
            return [c(*combo) for combo in itertools.product(*doms)]
        if isinstance(sort, z3.ArraySortRef) and sort.range() == B:
            try:
                dom = values(sort.domain()) if sort.arity() == 1 else None
            except Exception:
                dom = None
            if dom is not None and len(dom) <= 9:
                out = []
                for bits in itertools.product((False, True), repeat=len(dom)):
                    a = z3.K(sort.domain(), z3.BoolVal(False))
                    for dv, bit in zip(dom, bits):
                        if bit:
                            a = z3.Store(a, dv, True)
                    out.append(a)
                return out
        return None

    def rec(e):
        k = e.get_id()
        if k in cache:
            return cache[k][1]
        if z3.is_quantifier(e):
            n = e.num_vars()
            doms = [values(e.var_sort(i)) for i in range(n)]
            if e.is_lambda():
                doms = [None] * n
            size = 1
            for d in doms:
                size *= len(d) if d is not None else 1
            if size > 4096:
                doms = [None] * n
            keep = [z3.Const(f"bv!{k}!{i}", e.var_sort(i)) if doms[i] is None else None for i in range(n)]
            finite = [d for d in doms if d is not None]
            insts = []
            for combo in itertools.product(*finite):
                it_ = iter(combo)
                vals = [keep[i] if doms[i] is None else next(it_) for i in range(n)]
                # de Bruijn: Var(0) is the LAST bound variable; substitute top-down so that nested
                # binders are handled by z3's own substitution
                b2 = rec(z3.substitute_vars(e.body(), *reversed(vals)))
                kv = [v for v in keep if v is not None]
                if kv:
                    b2 = z3.Lambda(kv, b2) if e.is_lambda() else (z3.ForAll(kv, b2) if e.is_forall() else z3.Exists(kv, b2))
                insts.append(b2)
            if e.is_lambda():
                r = insts[0]
            else:
                r = z3.And(*insts) if e.is_forall() else z3.Or(*insts)
        elif z3.is_app(e) and e.num_args() > 0:
            ch = [rec(c) for c in e.children()]
            r = e.decl()(*ch) if not z3.is_and(e) and not z3.is_or(e) else (z3.And(*ch) if z3.is_and(e) else z3.Or(*ch))
        else:
            r = e
        if atom_terms is not None and z3.is_app(r) and not has_bound_var(r):
            if r.sort() == Atom and not any(r.eq(c) for c in consts):
                atom_terms[r.get_id()] = r
            elif isinstance(r.sort(), z3.DatatypeSortRef) and r.sort().num_constructors() == 1:
                # name-valued components of ground tuple terms must denote names of the bounded universe as well
                def proj(t):
                    srt = t.sort()
                    for i in range(srt.constructor(0).arity()):
                        comp = srt.accessor(0, i)(t)
                        if comp.sort() == Atom:
                            atom_terms[comp.get_id()] = comp
                        elif isinstance(comp.sort(), z3.DatatypeSortRef) and comp.sort().num_constructors() == 1:
                            proj(comp)
                proj(r)
        cache[k] = (e, r)  # keep `e` alive: z3 ast ids are recycled after garbage collection
        return r

    return rec(f)


def solve_cover(hyps, timeout_ms=4000):
    """vacuity guard: `ensures False` must not be provable from requires + background axioms.
    discharged = shown satisfiable, or no contradiction derivable within the budget; vacuous = contradiction."""
    t0 = time.time()
    s = z3.Solver()
    s.set("timeout", timeout_ms)
    for h in hyps:
        s.add(h)
    for h in distinct_axioms(list(hyps)):
        s.add(h)
    r = s.check()
    be = "z3-" + z3.get_version_string()
    if r == z3.unsat:
        return "vacuous", None, time.time() - t0, be
    return "discharged", None, time.time() - t0, be + ("(sat)" if r == z3.sat else "(no contradiction within budget)")


_hq_cache = {}


def has_quant(e):
    """does the term contain a quantifier or lambda (memoised on ast id)."""
    k = e.get_id()
    r = _hq_cache.get(k)
    if r is not None:
        return r[1]
    if z3.is_quantifier(e):
        r = True
    elif z3.is_app(e):
        r = any(has_quant(c) for c in e.children())
    else:
        r = True
    _hq_cache[k] = (e, r)
    return r


def feasible(hyps, timeout_ms=300):
    """cheap path pruning: only the quantifier-free part of the path condition is consulted
    (sound: an unsat subset makes the path infeasible; otherwise the path is kept)."""
    qf = [h for h in hyps if not has_quant(h)]
    if not qf:
        return True
    s = z3.Solver()
    s.set("timeout", timeout_ms)
    for h in qf:
        s.add(h)
    for h in distinct_axioms(qf):
        s.add(h)
    return s.check() != z3.unsat


# ----------------------------------------------------------------------------- contracts
class Contract:
    """Sidecar contract of one function.  Subclass / instantiate in contracts/*.py.

    variants(ex) -> list of (label, args dict name->V, extra) for top-level verification
    pre(ex, st, args) -> z3 Bool
    post(ex, st, args, old, result) -> z3 Bool       (old = snapshot returned by snapshot())
    raises(ex, st, args) -> {ExcName: z3 Bool}       raises exactly under these conditions
    invariants: {loop ordinal: fn(ex, st, args, old, ghost) -> z3 Bool}
    apply(ex, st, args) -> V                          default: assert pre, assume post on fresh result
    """

    file = None
    qual = None
    invariants = {}
    frame = ()  # names of parameters whose abstract state may change

    def variants(self, ex):
        raise NotImplementedError

    def pre(self, ex, st, args):
        return z3.BoolVal(True)

    def post(self, ex, st, args, old, result):
        return z3.BoolVal(True)

    def raises(self, ex, st, args):
        return {}

    def snapshot(self, ex, st, args):
        return {}

    def make_result(self, ex, st, args):
        return None

    def havoc(self, ex, st, args):
        pass

    def on_raise(self, ex, st, args, old, exc):
        return None

    def bind(self, ex, recv, args, kwargs, st):
        fdef, _, _ = ex.src.find(self.file, self.qual)
        env = {}
        ex.bind_params(fdef.args, ([recv] if recv is not None else []) + list(args), kwargs, env, st)
        return env


REGISTRY = {}  # "Class.method" -> Contract


LEMMAS = {}    # "Class.method" -> Contract that is verified but never applied at call sites (see register)


def register(c):
    """contracts are applied at call sites (modular verification); a contract marked `lemma_only` is only verified: it justifies a
    shortcut the library model takes for that method (thin wrappers around networkx mutators)"""
    if getattr(c, "lemma_only", False):
        LEMMAS[c.qual] = c
    else:
        REGISTRY[c.qual] = c
    return c


class Outcome:
    def __init__(self, kind, value=None, exc=None):
        self.kind, self.value, self.exc = kind, value, exc


NORMAL = Outcome("normal")


# ----------------------------------------------------------------------------- executor
class Executor:
    def __init__(self, source: Source, lib, classes=None, max_inline=3):
        self.src = source
        self.lib = lib  # library contracts (module with call_method / call_function)
        self.obligations = []
        self.axioms = []  # background axioms (lfp closure, order, ...)
        self.prefix = ""
        self.classes = classes or {}
        self.used_lib = set()
        self.inlined = set()
        self.used_contracts = set()
        self.assumed = set()
        self.loop_counter = 0
        self.loop_ids = {}
        self.dry = False
        self.contract = None
        self.cargs = None
        self.cold = None
        self.ob_counter = {}
        self.inline_depth = 0
        self.max_inline = max_inline
        self.max_paths = 400
        self.npaths = 0

    # ------------------------------------------------------------------ obligations
    def oblige(self, st, goal, kind):
        if self.dry:
            return None
        n = self.ob_counter.get(kind, 0)
        self.ob_counter[kind] = n + 1
        ob = Obligation(f"{self.prefix}/{kind}#{n}", self.axioms + st.pc, goal, st.trace, kind)
        self.obligations.append(ob)
        return ob

    def entails(self, st, f, timeout_ms=2000):
        v, _, _, _ = solve(self.axioms + st.pc, f, timeout_ms, want_model=False)
        return v == "discharged"

    def truth(self, st, v):
        """python truthiness of a value as a concrete bool, else raise NeedSplit."""
        z = self.truth_z(st, v)
        if z3.is_true(z):
            return True
        if z3.is_false(z):
            return False
        z = z3.simplify(z)
        if z3.is_true(z):
            return True
        if z3.is_false(z):
            return False
        if self.dry:
            # type-inference run: no solver calls; a condition already assumed on this path (by the split that re-executes the
            # statement) is decided syntactically
            nz = z3.Not(z)
            for h in reversed(st.pc[-8:]):
                if h.eq(z):
                    return True
                if h.eq(nz):
                    return False
            raise NeedSplit(z)
        if self.entails(st, z, 1000):
            return True
        if self.entails(st, z3.Not(z), 1000):
            return False
        raise NeedSplit(z)

    def truth_z(self, st, v):
        if isinstance(v, bool):
            return z3.BoolVal(v)
        if isinstance(v, NoneV):
            return z3.BoolVal(False)
        if isinstance(v, Scalar):
            if v.z.sort() == Opaque:
                return z3.Function("truthy", Opaque, B)(v.z)
            if v.z.sort() == B:
                return v.z
            if v.z.sort() == I:
                return v.z != 0
            if v.z.sort() == R:
                return v.z != 0
            if isinstance(v.z.sort(), z3.ArraySortRef):
                return nonempty(v.z, v.z.sort().domain())
            if v.z.sort() == Atom:
                # a label may be falsy (0, "", ()): which ones are is not modelled, so `if label:` splits the path
                return z3.Function("label_truthy", Atom, B)(v.z)
            return z3.BoolVal(True)
        if isinstance(v, Coll):
            if v.items is not None:
                return z3.BoolVal(len(v.items) > 0)
            return nonempty(v.mem, v.esort)
        if isinstance(v, DictV):
            return nonempty(v.dom, v.ksort)
        if isinstance(v, TupleV):
            return z3.BoolVal(len(v.items) > 0)
        if isinstance(v, (Obj, Closure, BoundMethod)):
            return z3.BoolVal(True)
        raise Unsupported(f"truthiness of {v!r}")

    # ------------------------------------------------------------------ blocks & statements
    def exec_block(self, stmts, st):
        """returns list of (state, Outcome)."""
        results = []
        work = [(st, 0)]
        while work:
            s, i = work.pop()
            if i >= len(stmts):
                results.append((s, NORMAL))
                continue
            for s2, out in self.exec_stmt(stmts[i], s):
                if out.kind == "normal":
                    work.append((s2, i + 1))
                else:
                    results.append((s2, out))
        return results

    def exec_stmt(self, node, st):
        self.npaths += 1
        if self.npaths > 20000:
            raise Unsupported("path explosion")
        pre = st.fork()
        mark = _fresh.value
        try:
            return self._exec_stmt(node, st)
        except Unsupported as e:
            if self.dry:
                if os.environ.get("PYVC_DEBUG"):
                    print(f"[dry] line {getattr(node, 'lineno', '?')}: {e}")
                return [(st, NORMAL)]
            raise
        except Raised as r:
            return [(st, Outcome("raise", exc=r.exc))]
        except NeedSplit as ns:
            out = []
            # both sides re-execute the statement from its pre-state and replay the fresh names drawn up to the split point (the split
            # condition may mention values the statement created itself, e.g. the result of a contracted call); from the split point on
            # the second side continues with names beyond everything the first side used, so no name is ever defined twice
            top = _fresh.value
            for cond, tag in ((ns.cond, "T"), (z3.Not(ns.cond), "F")):
                s2 = pre.fork()
                s2.assume(cond, f"L{getattr(node, 'lineno', '?')}:split-{tag}")
                _fresh.value = mark
                saved_jump = _fresh.jumps.get(ns.at)
                if tag == "F":
                    _fresh.jumps[ns.at] = top
                try:
                    if feasible(self.axioms + s2.pc):
                        out += self.exec_stmt(node, s2)
                finally:
                    if tag == "F":
                        if saved_jump is None:
                            _fresh.jumps.pop(ns.at, None)
                        else:
                            _fresh.jumps[ns.at] = saved_jump
                top = max(top, _fresh.value)
            _fresh.value = top
            return out

    def _exec_stmt(self, node, st):
        m = getattr(self, "st_" + type(node).__name__, None)
        if m is None:
            raise Unsupported(f"statement {type(node).__name__} at line {node.lineno}")
        return m(node, st)

    def st_Pass(self, node, st):
        return [(st, NORMAL)]

    def st_Expr(self, node, st):
        if isinstance(node.value, ast.Constant):
            return [(st, NORMAL)]
        self.ev(node.value, st)
        return [(st, NORMAL)]

    def st_Assign(self, node, st):
        v = self.ev(node.value, st)
        for t in node.targets:
            self.assign(t, v, st)
        return [(st, NORMAL)]

    def st_AnnAssign(self, node, st):
        if node.value is not None:
            self.assign(node.target, self.ev(node.value, st), st)
        return [(st, NORMAL)]

    def st_AugAssign(self, node, st):
        cur = self.ev(node.target, st)
        rhs = self.ev(node.value, st)
        if isinstance(cur, Coll) and cur.kind in ("set", "list") and isinstance(node.op, (ast.BitOr, ast.Sub, ast.BitAnd, ast.Add)):
            # in-place update keeps identity
            rz = self.as_coll(rhs, st)
            if isinstance(node.op, (ast.BitOr, ast.Add)):
                cur.mem = union(cur.mem, rz.mem, cur.esort)
                cur.items = None
                if isinstance(node.op, ast.Add):
                    cur.nodup = False
            elif isinstance(node.op, ast.Sub):
                cur.mem = diff(cur.mem, rz.mem, cur.esort)
                cur.items = None
            else:
                cur.mem = inter(cur.mem, rz.mem, cur.esort)
                cur.items = None
            return [(st, NORMAL)]
        v = self.binop(node.op, cur, rhs, st)
        self.assign(node.target, v, st)
        return [(st, NORMAL)]

    def assign(self, target, v, st):
        if isinstance(target, ast.Name):
            st.env[target.id] = v
        elif isinstance(target, (ast.Tuple, ast.List)):
            items = self.unpack(v, len(target.elts), st)
            for t, it in zip(target.elts, items):
                self.assign(t, it, st)
        elif isinstance(target, ast.Attribute):
            o = self.ev(target.value, st)
            if not isinstance(o, Obj):
                raise Unsupported(f"attribute store on {o!r}")
            o.fields[target.attr] = v
        elif isinstance(target, ast.Subscript):
            o = self.ev(target.value, st)
            k = self.ev(target.slice, st)
            self.setitem(o, k, v, st)
        else:
            raise Unsupported(f"assignment target {type(target).__name__}")

    def unpack(self, v, n, st):
        if isinstance(v, TupleV):
            if len(v.items) != n:
                raise Unsupported("unpack arity")
            return v.items
        if isinstance(v, Coll) and v.items is not None and len(v.items) == n:
            return v.items
        if isinstance(v, Scalar) and is_tuple_sort(v.z.sort()):
            tv = val_of(v.z)
            if len(tv.items) == n:
                return tv.items
        r = self.lib.unpack_hook(self, v, n, st) if hasattr(self.lib, "unpack_hook") else None
        if r is not None:
            return r
        raise Unsupported(f"cannot unpack {v!r} into {n}")

    def setitem(self, o, k, v, st):
        if isinstance(o, DictV):
            kz = z3_of(k)
            if o.ksort is None:
                o.ksort, o.dom = kz.sort(), empty_set(kz.sort())
            o.dom = z3.Store(o.dom, kz, True)
            if isinstance(v, (Coll,)) and o.val is None and o.vkind == "scalar":
                o.vkind = ("set", None)
            if o.vkind == "scalar":
                vz = z3_of(v)
                if o.val is None:
                    o.vsort = vz.sort()
                    o.val = fresh("dval", z3.ArraySort(o.ksort, o.vsort))
                o.val = z3.Store(o.val, kz, vz)
            else:
                c = self.as_coll(v, st)
                if c.mem is None:
                    raise Unsupported("storing an empty collection of unknown element type")
                if o.val is None:
                    o.vkind = ("set", c.esort)
                    o.val = fresh("dval", z3.ArraySort(o.ksort, set_sort(c.esort)))
                o.val = z3.Store(o.val, kz, c.mem)
            return
        if isinstance(o, Coll) and o.kind == "list" and isinstance(k, Scalar) and k.z.sort() == I and o.mem is not None:
            # L[i] = v on an abstract list: same length, position i replaced (IndexError-free obligation; negative indices not modelled)
            at, _ = self.seq_of(o, st)
            n = o.len_z
            self.oblige(st, z3.And(0 <= k.z, k.z < n), "indexerror-free")
            vz = z3_of(v)
            kk = next(_fresh)
            at2 = z3.Function(f"at!{kk}", I, o.esort)
            idx2 = z3.Function(f"idx!{kk}", o.esort, I)
            i_, y = fresh("i", I), fresh("y", o.esort)
            st.assume(z3.ForAll([i_], at2(i_) == z3.If(i_ == k.z, vz, at(i_))))
            o.mem = z3.Lambda([y], z3.Exists([i_], z3.And(0 <= i_, i_ < n, at2(i_) == y)))
            st.assume(z3.ForAll([y], z3.Implies(o.mem[y], z3.And(0 <= idx2(y), idx2(y) < n, at2(idx2(y)) == y))))
            o.items, o.nodup, o.nodup_z, o.seq = None, False, None, (at2, idx2)
            return
        raise Unsupported(f"item store on {o!r}")

    def st_If(self, node, st):
        c = self.ev(node.test, st)
        z = z3.simplify(self.truth_z(st, c))
        out = []
        for cond, body, tag in ((z, node.body, "then"), (z3.Not(z), node.orelse, "else")):
            if z3.is_false(z3.simplify(cond)):
                continue
            s2 = st.fork() if not z3.is_true(z3.simplify(cond)) else st
            s2.assume(cond, f"L{node.lineno}:{tag}")
            if not z3.is_true(z3.simplify(cond)) and not feasible(self.axioms + s2.pc):
                continue
            out += self.exec_block(body, s2)
        return out

    def st_Return(self, node, st):
        v = self.ev(node.value, st) if node.value is not None else NONE
        return [(st, Outcome("return", v))]

    def st_Raise(self, node, st):
        name = "Exception"
        e = node.exc
        if isinstance(e, ast.Call):
            e = e.func
        if isinstance(e, ast.Name):
            name = e.id
        elif isinstance(e, ast.Attribute):
            name = e.attr
        return [(st, Outcome("raise", exc=name))]

    def st_Break(self, node, st):
        return [(st, Outcome("break"))]

    def st_Continue(self, node, st):
        return [(st, Outcome("continue"))]

    def st_Assert(self, node, st):
        c = self.ev(node.test, st)
        st.assume(self.truth_z(st, c))
        return [(st, NORMAL)]

    def st_FunctionDef(self, node, st):
        clo = Closure(node, st.env, node.name)
        if self.contract is not None and self.inline_depth == 0:
            clo.qual = f"{self.contract.qual}.<locals>.{node.name}"
        for d in reversed(node.decorator_list):
            dv = self.ev(d, st)
            clo = self.call_value(dv, [clo], {}, st, node)
        st.env[node.name] = clo
        return [(st, NORMAL)]

    def st_Try(self, node, st):
        out = []
        for s2, o in self.exec_block(node.body, st):
            if o.kind == "raise":
                handled = False
                for h in node.handlers:
                    names = []
                    if h.type is None:
                        names = None
                    else:
                        ts = h.type.elts if isinstance(h.type, ast.Tuple) else [h.type]
                        for t in ts:
                            names.append(t.attr if isinstance(t, ast.Attribute) else getattr(t, "id", "?"))
                    if names is None or o.exc in names or "Exception" in names:
                        out += self.exec_block(h.body, s2)
                        handled = True
                        break
                if not handled:
                    out.append((s2, o))
            elif o.kind == "normal":
                out += self.exec_block(node.orelse, s2) if node.orelse else [(s2, o)]
            else:
                out.append((s2, o))
        if node.finalbody:
            raise Unsupported("try/finally")
        return out

    # ------------------------------------------------------------------ loops
    def modified_names(self, body):
        """names assigned / objects mutated syntactically inside a loop body."""
        assigned, mutated = set(), set()
        MUT = {"add", "update", "remove", "discard", "pop", "append", "extend", "clear", "difference_update", "intersection_update",
               "add_edge", "add_edges_from", "add_node", "add_nodes_from", "remove_edge", "remove_node", "remove_edges_from",
               "remove_nodes_from", "add_assertions", "insert", "sort", "setdefault", "popitem"}

        def root(n):
            while isinstance(n, (ast.Attribute, ast.Subscript)):
                n = n.value
            return n.id if isinstance(n, ast.Name) else None

        for n in ast.walk(ast.Module(body=list(body), type_ignores=[])):
            if isinstance(n, (ast.Assign, ast.AugAssign, ast.AnnAssign)):
                ts = n.targets if isinstance(n, ast.Assign) else [n.target]
                for t in ts:
                    for nn in ast.walk(t):
                        if isinstance(nn, ast.Name) and isinstance(nn.ctx, ast.Store):
                            assigned.add(nn.id)
                    if isinstance(t, (ast.Attribute, ast.Subscript)):
                        r = root(t)
                        if r:
                            mutated.add(r)
                if isinstance(n, ast.AugAssign) and isinstance(n.target, ast.Name):
                    mutated.add(n.target.id)
            elif isinstance(n, ast.For):
                for nn in ast.walk(n.target):
                    if isinstance(nn, ast.Name):
                        assigned.add(nn.id)
            elif isinstance(n, ast.Call) and isinstance(n.func, ast.Attribute) and n.func.attr in MUT:
                r = root(n.func.value)
                if r:
                    mutated.add(r)
            elif isinstance(n, ast.Delete):
                for t in n.targets:
                    r = root(t)
                    if r:
                        mutated.add(r)
        return assigned, mutated

    def havoc_value(self, v, tag):
        """fresh unconstrained abstract state, same identity and type."""
        if isinstance(v, Coll):
            if v.esort is None:
                raise Unsupported(f"element type of an empty collection could not be inferred at a loop head ({tag})")
            v.mem = fresh(tag, set_sort(v.esort))
            v.items = None
            v.len_z = None
            v.seq = None
            if v.kind in ("list",):
                v.nodup = False
                v.nodup_z = fresh(tag + "_nodup", B)
        elif isinstance(v, DictV):
            if v.ksort is None:
                raise Unsupported(f"key type of an empty dict could not be inferred at a loop head ({tag})")
            v.dom = fresh(tag + "_dom", set_sort(v.ksort))
            if v.val is not None:
                v.val = fresh(tag + "_val", v.val.sort())
        elif isinstance(v, Obj):
            for k, f in list(v.fields.items()):
                if isinstance(f, (Coll, DictV, Obj)):
                    self.havoc_value(f, f"{tag}_{k}")
                elif isinstance(f, Scalar):
                    v.fields[k] = Scalar(fresh(f"{tag}_{k}", f.z.sort()), f.pytype)
                elif isinstance(f, z3.ExprRef):
                    v.fields[k] = fresh(f"{tag}_{k}", f.sort())
        return v

    def havoc_loop(self, body, st, tag, extra_mut=()):
        assigned, mutated = self.modified_names(body)
        for name in sorted(mutated | set(extra_mut)):
            if name in st.env:
                v = st.env[name]
                if isinstance(v, (Coll, DictV, Obj)):
                    self.havoc_value(v, f"{tag}_{name}")
        for name in sorted(assigned):
            if name in st.env:
                v = st.env[name]
                if isinstance(v, Scalar):
                    st.env[name] = Scalar(fresh(f"{tag}_{name}", v.z.sort()), v.pytype)
                elif isinstance(v, (Coll, DictV)) and name not in mutated:
                    # rebinding inside the loop: new object of the same type
                    nv = copy.copy(v)
                    self.havoc_value(nv, f"{tag}_{name}")
                    st.env[name] = nv
                elif isinstance(v, TupleV):
                    st.env[name] = TupleV([Scalar(fresh(f"{tag}_{name}{i}", z3_of(it).sort())) for i, it in enumerate(v.items)])
        return assigned, mutated

    def infer_loop_types(self, node, st, bind=None):
        """one dry iteration of the loop body on a copy of the state, only to learn the element
        sorts of collections that are still empty/untyped at the loop head."""
        untyped = [n for n, v in st.env.items() if (isinstance(v, Coll) and v.esort is None) or (isinstance(v, DictV) and v.ksort is None)]
        if not untyped:
            return
        s = st.fork()
        saved = (self.dry, self.npaths)
        self.dry = True
        outs = []
        try:
            if bind:
                bind(s)
            outs = self.exec_block(node.body, s)
        except (Unsupported, NeedSplit, z3.Z3Exception, KeyError, AttributeError, TypeError) as e:
            if os.environ.get("PYVC_DEBUG"):
                import traceback
                traceback.print_exc()
            outs = [(s, NORMAL)]
        finally:
            self.dry, self.npaths = saved
        if os.environ.get("PYVC_DEBUG"):
            print(f"[dry] loop at line {node.lineno}: {len(outs)} outcomes {[o.kind for _, o in outs]}; untyped {untyped} -> "
                  f"{[[getattr(s2.env.get(n), 'esort', None) for n in untyped] for s2, _ in outs]}")
        for s2, _ in outs:
            for n in untyped:
                v2, v = s2.env.get(n), st.env[n]
                if isinstance(v, Coll) and isinstance(v2, Coll) and v.esort is None and v2.esort is not None:
                    v.esort, v.mem = v2.esort, empty_set(v2.esort)
                if isinstance(v, DictV) and isinstance(v2, DictV) and v.ksort is None and v2.ksort is not None:
                    v.ksort, v.dom, v.vkind, v.vsort = v2.ksort, empty_set(v2.ksort), v2.vkind, v2.vsort
                    if v2.val is not None:
                        v.val = fresh("dval", v2.val.sort())
                elif (isinstance(v, DictV) and isinstance(v2, DictV) and v.ksort is not None and v.val is None
                      and v2.val is not None and v2.ksort == v.ksort and n in untyped):
                    # an earlier outcome stored a still-untyped value; this one knows the value sort
                    v.vkind, v.vsort = v2.vkind, v2.vsort
                    v.val = fresh("dval", v2.val.sort())

    def next_loop_id(self, node=None):
        if node is not None and id(node) in self.loop_ids:
            return self.loop_ids[id(node)]
        k = self.loop_counter
        self.loop_counter += 1
        return k

    def is_generator(self, fdef):
        for n in ast.walk(fdef):
            if isinstance(n, (ast.Yield, ast.YieldFrom)):
                return True
        return False

    def number_loops(self, fdef):
        """static numbering of For/While nodes in source order (independent of unrolling/summaries)."""
        self.loop_ids = {}
        k = 0
        for n in ast.walk(fdef):
            pass
        def visit(n):
            nonlocal k
            for ch in ast.iter_child_nodes(n):
                if isinstance(ch, (ast.For, ast.While)):
                    self.loop_ids[id(ch)] = k
                    k += 1
                if not isinstance(ch, (ast.FunctionDef, ast.Lambda, ast.ClassDef)) or True:
                    visit(ch)
        visit(fdef)

    def inv(self, k, st, ghost):
        f = self.contract.invariants.get(k)
        if f is None:
            return None
        return f(self, st, st.args, self.cold, ghost)

    def st_While(self, node, st):
        k = self.next_loop_id(node)
        if self.dry:
            outs = self.exec_block(node.body, st)
            return [(s, NORMAL if o.kind in ("break", "continue") else o) for s, o in outs]
        self.infer_loop_types(node, st)
        invf = self.contract.invariants.get(k) if self.inline_depth == 0 else None
        if invf is None:
            raise Unsupported(f"while loop #{k} at line {node.lineno} has no invariant in the sidecar contract")
        if node.orelse:
            raise Unsupported("while/else")
        saved_counter = self.loop_counter
        # init
        self.oblige(st, invf(self, st, st.args, self.cold, {}), f"loop{k}.init")
        # arbitrary iteration
        self.havoc_loop(node.body, st, f"w{k}")
        st.assume(invf(self, st, st.args, self.cold, {}), f"loop{k}:inv")
        c = self.ev(node.test, st)
        z = self.truth_z(st, c)
        out = []
        # preserve
        s_body = st.fork()
        s_body.assume(z, f"loop{k}:enter")
        if feasible(self.axioms + s_body.pc):
            for s2, o in self.exec_block(node.body, s_body):
                if o.kind in ("normal", "continue"):
                    self.oblige(s2, invf(self, s2, s2.args, self.cold, {}), f"loop{k}.preserve")
                elif o.kind == "break":
                    out.append((s2, NORMAL))
                else:
                    out.append((s2, o))
        self.loop_counter = max(self.loop_counter, saved_counter)
        # exit
        st.assume(z3.Not(z), f"loop{k}:exit")
        out.append((st, NORMAL))
        return out

    def effect_free_loop(self, node, it, st, k):
        """a for-loop whose body writes nothing of the modelled state (only per-iteration locals, calls on opaque
        objects): its obligations are generated for an arbitrary element; afterwards the state is unchanged.
        break/return/raise inside the body leave through the corresponding path."""
        assigned, mutated = self.modified_names(node.body)
        plain = set()
        for n in ast.walk(ast.Module(body=list(node.body), type_ignores=[])):
            if isinstance(n, ast.Assign):
                for t in n.targets:
                    if isinstance(t, ast.Name):
                        plain.add(t.id)
            if isinstance(n, (ast.Yield, ast.YieldFrom)):
                return None
        locals_ = {n for n in assigned if n not in st.env}
        if (mutated - locals_) or (assigned - locals_):
            return None
        c0 = next(_fresh)
        x = fresh(f"e{k}", it.esort)
        s_body = st.fork()
        s_body.assume(it.mem[x])
        base = len(s_body.pc)
        self.assign(node.target, val_of(x), s_body)
        out = []
        through = []
        for s2, o in self.exec_block(node.body, s_body):
            if o.kind in ("normal", "continue"):
                cond = z3.And(*s2.pc[base:]) if len(s2.pc) > base else z3.BoolVal(True)
                fr = [c for c in self.fresh_consts_in(cond, c0) if not c.eq(x)]
                if any(isinstance(c.sort(), z3.ArraySortRef) for c in fr):
                    through = None   # per-iteration fresh collections: no summary of the fall-through paths
                elif through is not None:
                    through.append(z3.Exists(fr, cond) if fr else cond)
                continue
            if o.kind == "break":
                out.append((s2, NORMAL))
            else:
                out.append((s2, o))
        self.assumed.add("effect-free loop rule: a loop body that writes no modelled state is checked for one arbitrary element")
        if through and not all(z3.is_true(z3.simplify(c)) for c in through):
            # leaving the loop at its end means every element went through the body without break / return / raise
            st.assume(z3.ForAll([x], z3.Implies(it.mem[x], z3.Or(*through))), f"loop{k}:every element fell through")
        out.append((st, NORMAL))
        return out

    def foreach_summary(self, node, it, st):
        """Parallel-loop rule (generalised accumulator loop, DESIGN §1):
            for x in S: <body whose only side effects are emissions T.add/append/update/extend(v) or `yield v`>
        The body is executed symbolically once for an arbitrary x in S on a copy of the state; every path i
        yields (cond_i, emitted values).  Then  T := T ∪ {v | ∃x∈S ∃fresh. cond_i ∧ v = val_i}.
        Not applicable (returns False) when the body reads an emission target, mutates anything else,
        or leaves by break/return/raise."""
        assigned, mutated = self.modified_names(node.body)
        emit_names = set()
        has_yield = False
        for n in ast.walk(ast.Module(body=list(node.body), type_ignores=[])):
            if isinstance(n, ast.Call) and isinstance(n.func, ast.Attribute) and n.func.attr in ("add", "append", "update", "extend") \
                    and isinstance(n.func.value, ast.Name):
                emit_names.add(n.func.value.id)
            if isinstance(n, (ast.Yield, ast.YieldFrom)):
                has_yield = True
            if isinstance(n, (ast.Break, ast.Return, ast.Raise)):
                return False
        if has_yield:
            emit_names.add("__yield__")
            st.env.setdefault("__yield__", Coll("list", None, None, items=[]))
        # names first bound inside the body are per-iteration locals (e.g. `delta = ..; delta += ..`)
        plain = set()
        for n in ast.walk(ast.Module(body=list(node.body), type_ignores=[])):
            if isinstance(n, ast.Assign):
                for t in n.targets:
                    if isinstance(t, ast.Name):
                        plain.add(t.id)
        locals_ = {n for n in plain if n not in st.env}
        if not emit_names or (mutated - emit_names - locals_):
            return False
        reads = set()
        for n in ast.walk(ast.Module(body=list(node.body), type_ignores=[])):
            if isinstance(n, ast.Name) and isinstance(n.ctx, ast.Load):
                reads.add(n.id)
        # a target may only appear as receiver of an emission
        n_recv = {}
        for n in ast.walk(ast.Module(body=list(node.body), type_ignores=[])):
            if isinstance(n, ast.Call) and isinstance(n.func, ast.Attribute) and isinstance(n.func.value, ast.Name) \
                    and n.func.value.id in emit_names and n.func.attr in ("add", "append", "update", "extend"):
                n_recv[n.func.value.id] = n_recv.get(n.func.value.id, 0) + 1
        for t in emit_names - {"__yield__"}:
            cnt = sum(1 for n in ast.walk(ast.Module(body=list(node.body), type_ignores=[])) if isinstance(n, ast.Name) and n.id == t)
            if cnt != n_recv.get(t, 0):
                return False
            if not isinstance(st.env.get(t), Coll) or st.env[t].kind not in ("set", "list"):
                return False
        if assigned & emit_names:
            return False
        c0 = next(_fresh)
        if is_tuple_sort(it.esort):
            # bind the components: quantifiers over names trigger far better than over tuples
            ctor = it.esort.constructor(0)
            xs = [fresh("itc", ctor.domain(i)) for i in range(ctor.arity())]
            x = ctor(*xs)
        else:
            x = fresh("it", it.esort)
            xs = [x]
        s2 = st.fork()
        for t in emit_names:
            s2.env[t].recording = []
        s2.assume(it.mem[x])
        base = len(s2.pc)
        self.assign(node.target, val_of(x), s2)
        saved_obs = len(self.obligations)
        try:
            outs = self.exec_block(node.body, s2)
        except Unsupported:
            del self.obligations[saved_obs:]
            return False
        if any(o.kind not in ("normal", "continue") for _, o in outs):
            del self.obligations[saved_obs:]
            return False
        emissions = {t: [] for t in emit_names}
        for s_i, _ in outs:
            cond = z3.And(*s_i.pc[base:]) if len(s_i.pc) > base else z3.BoolVal(True)
            # per-iteration fresh *arrays* (e.g. the arbitrary orientation chosen by combinations()) would have
            # to be quantified existentially (second order): not summarised, the loop then needs an invariant
            if any(isinstance(c.sort(), z3.ArraySortRef) for c in self.fresh_consts_in(cond, c0)):
                del self.obligations[saved_obs:]
                return False
            for t in emit_names:
                for kind, val in s_i.env[t].recording:
                    emissions[t].append((cond, kind, val))
        # totality: every element takes one of the explored paths, so the facts those paths carry (callee postconditions, library
        # axioms) hold for every element - needed when the emitted collection is used negatively (`all(...)`, emptiness)
        path_conds = []
        for s_i, _ in outs:
            cond = z3.And(*s_i.pc[base:]) if len(s_i.pc) > base else z3.BoolVal(True)
            fr = [c for c in self.fresh_consts_in(cond, c0) if not any(c.eq(q) for q in xs)]
            path_conds.append(z3.Exists(fr, cond) if fr else cond)
        if path_conds and not all(z3.is_true(z3.simplify(c)) for c in path_conds):
            st.assume(z3.ForAll(list(xs), z3.Implies(it.mem[x], z3.Or(*path_conds))))
        for t, ems in emissions.items():
            if not ems:
                continue
            T = st.env[t]
            esort = None
            for cond, kind, val in ems:
                esort = val.sort() if kind == "elem" else val.sort().domain()
            if T.mem is None and getattr(T, "recording", None) is None:
                T.esort, T.mem = esort, empty_set(esort)
            if T.esort is None:
                T.esort = esort
            if T.esort != esort:
                raise Unsupported("emission element sort mismatch")
            y = fresh("y", esort)
            disj = []
            for cond, kind, val in ems:
                body = z3.And(it.mem[x], cond, deq(y, val) if kind == "elem" else val[y])
                bound = list(xs) + [c for c in self.fresh_consts_in(body, c0) if not any(c.eq(q) for q in xs) and not c.eq(y)]
                disj.append(z3.Exists(bound, body))
            if getattr(T, "recording", None) is not None:
                # nested summarised loop inside a summarised loop: emit the whole set to the outer recorder
                T.recording.append(("coll", z3.Lambda([y], z3.Or(*disj))))
                continue
            old = T.mem
            T.mem = z3.Lambda([y], z3.Or(old[y], *disj))
            T.items = None
            if T.kind == "list":
                T.nodup = False
                T.len_z = None
                T.seq = None
        for a in assigned:
            st.env.pop(a, None) if a not in st.env else None
        self.assumed.add("parallel-loop rule (DESIGN §1): a for-loop whose body only emits values (add/append/update/extend/yield) and "
                         "mutates nothing else is summarised as T ∪ {v | ∃x∈S. path-condition ∧ v = emitted value}")
        return True

    def fresh_consts_in(self, e, c0):
        """uninterpreted constants created after counter c0 (named name!k with k >= c0) occurring in e."""
        out, seen = {}, set()

        def rec(t):
            k = t.get_id()
            if k in seen:
                return
            seen.add(k)
            if z3.is_quantifier(t):
                rec(t.body())
            elif z3.is_app(t):
                if t.num_args() == 0 and t.decl().kind() == z3.Z3_OP_UNINTERPRETED:
                    nm = t.decl().name()
                    if "!" in nm:
                        try:
                            if int(nm.rsplit("!", 1)[1]) >= c0:
                                out[nm] = t
                        except ValueError:
                            pass
                for ch in t.children():
                    rec(ch)

        rec(e)
        return list(out.values())

    def ex_Yield(self, node, st):
        v = self.ev(node.value, st) if node.value is not None else NONE
        tgt = st.env.setdefault("__yield__", Coll("list", None, None, items=[]))
        self.coll_method(tgt, "append", [v], {}, st)
        return NONE

    def accumulator_summary(self, node, it, st):
        """`for x in S: [if g(x):] T.add(f(x)) | T.update(h(x)) | G.add_edge(..)`  with pure f,g,h not reading T.
        Summarised as T := T ∪ {f(x) | x∈S ∧ g(x)}.  Returns True if applied."""
        body = node.body
        guard = None
        if len(body) == 1 and isinstance(body[0], ast.If) and not body[0].orelse:
            guard = body[0].test
            body = body[0].body
        calls = []
        for b in body:
            if not (isinstance(b, ast.Expr) and isinstance(b.value, ast.Call) and isinstance(b.value.func, ast.Attribute)):
                return False
            c = b.value
            if c.func.attr not in ("add", "update", "append", "extend") or c.keywords or len(c.args) != 1:
                return False
            if not isinstance(c.func.value, ast.Name):
                return False
            calls.append(c)
        if not calls:
            return False
        targets = {c.func.value.id for c in calls}
        # purity: body expressions must not read the targets nor call anything mutating
        reads = set()
        for c in calls:
            for n in ast.walk(c.args[0]):
                if isinstance(n, ast.Name):
                    reads.add(n.id)
        if guard is not None:
            for n in ast.walk(guard):
                if isinstance(n, ast.Name):
                    reads.add(n.id)
        if reads & targets:
            return False
        for t in targets:
            if not isinstance(st.env.get(t), Coll) or st.env[t].kind not in ("set", "list"):
                return False
        x = fresh("it", it.esort)
        s2 = st.fork()
        self.assign(node.target, val_of(x), s2)
        s2.assume(it.mem[x])
        try:
            g = z3.BoolVal(True) if guard is None else self.truth_z(s2, self.ev(guard, s2))
        except NeedSplit:
            return False
        s2.assume(g)
        npc = len(s2.pc)
        for c in calls:
            T = st.env[c.func.value.id]
            e = self.ev(c.args[0], s2)
            if c.func.attr in ("add", "append"):
                ez = z3_of(e)
                if T.mem is None:
                    T.esort, T.mem = ez.sort(), empty_set(ez.sort())
                if ez.sort() != T.esort:
                    raise Unsupported("accumulator element sort mismatch")
                y = fresh("y", T.esort)
                newmem = z3.Lambda([y], z3.Or(T.mem[y], z3.Exists([x], z3.And(it.mem[x], g, deq(y, ez)))))
            else:
                ec = self.as_coll(e, s2)
                if ec.mem is None:
                    continue
                if T.mem is None:
                    T.esort, T.mem = ec.esort, empty_set(ec.esort)
                y = fresh("y", T.esort)
                newmem = z3.Lambda([y], z3.Or(T.mem[y], z3.Exists([x], z3.And(it.mem[x], g, ec.mem[y]))))
            T.mem = newmem
            T.items = None
            if c.func.attr in ("append", "extend"):
                T.nodup = False
        if len(s2.pc) != npc:
            raise Unsupported("accumulator body introduces assumptions about per-iteration values")
        self.assumed.add("accumulator-loop rule (DESIGN §1): for x in S: [if g(x):] T.add(f(x)) == T ∪ {f(x)|x∈S∧g(x)}")
        return True

    def st_For(self, node, st):
        itv = self.ev(node.iter, st)
        if isinstance(itv, TupleV) and len(itv.items) <= 4 and not node.orelse:
            it = Coll("tuple", None, None, items=list(itv.items))  # concrete python sequence: unrolled below
        else:
            it = self.as_coll(itv, st)
        if node.orelse and not (it.items is not None and len(it.items) <= 4) and self.contract is not None \
                and self.contract.invariants.get(self.loop_ids.get(id(node))) is None:
            raise Unsupported("for/else on a loop without invariant")
        if it.items is not None and len(it.items) <= 4:
            # concrete short sequence: unroll
            states = [st]
            out = []
            for item in it.items:
                nxt = []
                for s in states:
                    self.assign(node.target, item, s)
                    for s2, o in self.exec_block(node.body, s):
                        if o.kind in ("normal", "continue"):
                            nxt.append(s2)
                        elif o.kind == "break":
                            out.append((s2, NORMAL))
                        else:
                            out.append((s2, o))
                states = nxt
            if node.orelse:   # for/else: the else block runs on the paths that did not break
                for s in states:
                    out += self.exec_block(node.orelse, s)
                return out
            return out + [(s, NORMAL) for s in states]
        if node.orelse and self.dry:
            raise Unsupported("for/else in a type-inference run")
        if not node.orelse and self.foreach_summary(node, it, st):
            return [(st, NORMAL)]
        k = self.next_loop_id(node)
        if self.dry:
            if it.mem is None:
                return [(st, NORMAL)]
            self.assign(node.target, val_of(fresh("dry", it.esort)), st)
            outs = self.exec_block(node.body, st)
            return [(s, NORMAL if o.kind in ("break", "continue") else o) for s, o in outs]
        if it.mem is None:
            return [(st, NORMAL)]
        self.infer_loop_types(node, st, bind=lambda s_: self.assign(node.target, val_of(fresh("dry", it.esort)), s_))
        invf = self.contract.invariants.get(k) if self.inline_depth == 0 else None
        if invf is None:
            r = self.effect_free_loop(node, it, st, k)
            if r is not None:
                return r
            raise Unsupported(f"for loop #{k} at line {node.lineno} has no invariant in the sidecar contract")
        saved_counter = self.loop_counter
        done0 = empty_set(it.esort)
        self.oblige(st, invf(self, st, st.args, self.cold, {"done": done0, "iter": it.mem}), f"loop{k}.init")
        self.havoc_loop(node.body, st, f"f{k}")
        done = fresh(f"done{k}", set_sort(it.esort))
        st.assume(subset(done, it.mem, it.esort))
        st.assume(invf(self, st, st.args, self.cold, {"done": done, "iter": it.mem}), f"loop{k}:inv")
        out = []
        s_body = st.fork()
        x = fresh(f"x{k}", it.esort)
        s_body.assume(it.mem[x])
        s_body.ghost[f"done{k}"] = done
        s_body.ghost[f"cur{k}"] = x
        if it.nodup:
            s_body.assume(z3.Not(done[x]))
        self.assign(node.target, val_of(x), s_body)
        if feasible(self.axioms + s_body.pc):
            for s2, o in self.exec_block(node.body, s_body):
                if o.kind in ("normal", "continue"):
                    self.oblige(s2, invf(self, s2, s2.args, self.cold, {"done": z3.Store(done, x, True), "iter": it.mem}), f"loop{k}.preserve")
                elif o.kind == "break":
                    s2.ghost[f"break{k}"] = True
                    out.append((s2, NORMAL))
                else:
                    out.append((s2, o))
        self.loop_counter = max(self.loop_counter, saved_counter)
        st.assume(seteq(done, it.mem, it.esort), f"loop{k}:exit")
        if node.orelse:
            out += self.exec_block(node.orelse, st)   # for/else: reached only when the loop was not left by `break`
        else:
            out.append((st, NORMAL))
        return out

    # ------------------------------------------------------------------ expressions
    def ev(self, node, st):
        m = getattr(self, "ex_" + type(node).__name__, None)
        if m is None:
            raise Unsupported(f"expression {type(node).__name__} at line {getattr(node, 'lineno', '?')}")
        return m(node, st)

    def ex_JoinedStr(self, node, st):
        for v in node.values:
            if isinstance(v, ast.FormattedValue):
                self.ev(v.value, st)    # evaluated for its obligations; the text itself is not modelled
        return Scalar(fresh("fstring", Atom), "str")

    def ex_Constant(self, node, st):
        v = node.value
        if v is None:
            return NONE
        if isinstance(v, bool):
            return Scalar(z3.BoolVal(v))
        if isinstance(v, int):
            return Scalar(z3.IntVal(v))
        if isinstance(v, float):
            return Scalar(z3.RealVal(repr(v)))
        if isinstance(v, str):
            return Scalar(str_const(v), "str")
        raise Unsupported(f"constant {v!r}")

    def ex_Name(self, node, st):
        if node.id in st.env:
            return st.env[node.id]
        if node.id in ("set", "list", "tuple", "frozenset", "len", "isinstance", "sorted", "sum", "any", "all", "dict", "hasattr",
                       "super", "str", "int", "bool", "iter", "range", "min", "max", "abs", "float", "type", "zip", "enumerate",
                       "print", "hash", "getattr", "reversed", "next", "map", "filter", "id"):
            return ModuleV("builtins." + node.id)
        if node.id in ("True", "False"):
            return Scalar(z3.BoolVal(node.id == "True"))
        if node.id in ("nx", "itertools", "np", "pd", "networkx", "math"):
            return ModuleV(node.id)
        if node.id in self.classes or node.id in ("ValueError", "TypeError", "KeyError", "IndexError", "Exception"):
            return ClassV(node.id)
        g = self.lib.global_name(self, node.id, st)
        if g is not None:
            return g
        raise Unsupported(f"unknown name '{node.id}' at line {node.lineno}")

    def ex_Tuple(self, node, st):
        return TupleV([self.ev(e, st) for e in node.elts])

    def ex_List(self, node, st):
        items = [self.ev(e, st) for e in node.elts]
        try:
            zs = [z3_of(i) for i in items]
            if len({str(z.sort()) for z in zs}) > 1:
                raise Unsupported("heterogeneous")
        except Unsupported:
            # heterogeneous literal (e.g. [variable, set_of_nodes, set_of_parents]): a fixed-length python sequence
            t = TupleV(items)
            t.is_list = True
            return t
        return self.coll_from_items("list", items)

    def ex_Set(self, node, st):
        items = [self.ev(e, st) for e in node.elts]
        c = self.coll_from_items("set", items)
        c.items = None if len(items) > 1 else c.items
        return c

    def coll_from_items(self, kind, items, esort=None):
        if not items:
            c = Coll(kind, esort, None, items=[])
            return c
        zs = [z3_of(i) for i in items]
        esort = zs[0].sort()
        if isinstance(esort, z3.ArraySortRef) or (isinstance(esort, z3.DatatypeSortRef) and not deq(zs[0], zs[0]).eq(zs[0] == zs[0])):
            y = fresh("y", esort)
            mem = z3.Lambda([y], z3.Or(*[deq(y, z) for z in zs]))
        else:
            mem = empty_set(esort)
            for z in zs:
                mem = z3.Store(mem, z, True)
        distinct_names = all(z.decl().kind() == z3.Z3_OP_UNINTERPRETED and z.decl().name().startswith("str:") for z in zs if z.sort() == Atom) \
            and all(z.sort() == Atom for z in zs) and len({z.decl().name() for z in zs}) == len(zs)
        return Coll(kind, esort, mem, items=list(items), nodup=(kind in ("set", "frozenset") or len(items) <= 1 or distinct_names))

    def ex_Dict(self, node, st):
        if node.keys:
            if all(isinstance(k, ast.Constant) and isinstance(k.value, str) for k in node.keys):
                # a literal table {"name": expr, ...}: kept unevaluated; any use other than being bound to a name leaves the subset
                return LiteralTable(node)
            raise Unsupported("non-empty dict literal")
        return DictV(None, "scalar", None, None)

    def ex_IfExp(self, node, st):
        t = self.truth(st, self.ev(node.test, st))
        return self.ev(node.body if t else node.orelse, st)

    def ex_BoolOp(self, node, st):
        """short-circuit semantics: operand i is evaluated under the assumption that the previous
        operands did not decide the result; facts learnt meanwhile are kept, guarded."""
        vals, zs = [], []
        is_and = isinstance(node.op, ast.And)
        for e in node.values:
            if zs and ((is_and and z3.is_false(z3.simplify(zs[-1]))) or (not is_and and z3.is_true(z3.simplify(zs[-1])))):
                break   # decided by a concrete operand: the remaining operands are never evaluated
            if zs:
                guard = z3.And(*zs) if is_and else z3.Not(z3.Or(*zs))
                mark = len(st.pc)
                st.pc.append(guard)
                try:
                    v = self.ev(e, st)
                    z = self.truth_z(st, v)
                finally:
                    added = st.pc[mark + 1:]
                    del st.pc[mark:]
                    st.pc.extend(z3.Implies(guard, a) for a in added)
            else:
                v = self.ev(e, st)
                z = self.truth_z(st, v)
            vals.append(v)
            zs.append(z)
        allbool = all(isinstance(v, Scalar) and v.z.sort() == B for v in vals)
        if allbool:
            return Scalar(z3.And(*zs) if is_and else z3.Or(*zs))
        # python value semantics: decide sequentially
        for v in vals[:-1]:
            t = self.truth(st, v)
            if is_and and not t:
                return v
            if not is_and and t:
                return v
        return vals[-1]

    def ex_UnaryOp(self, node, st):
        v = self.ev(node.operand, st)
        if isinstance(node.op, ast.Not):
            return Scalar(z3.Not(self.truth_z(st, v)))
        if isinstance(node.op, ast.USub) and isinstance(v, Scalar):
            return Scalar(-v.z)
        raise Unsupported("unary op")

    def ex_Compare(self, node, st):
        left = self.ev(node.left, st)
        res = []
        for op, rn in zip(node.ops, node.comparators):
            right = self.ev(rn, st)
            res.append(self.compare(op, left, right, st))
            left = right
        return Scalar(z3.And(*res) if len(res) > 1 else res[0])

    def compare(self, op, a, b, st):
        if isinstance(op, (ast.In, ast.NotIn)):
            z = self.contains(b, a, st)
            return z if isinstance(op, ast.In) else z3.Not(z)
        if isinstance(op, (ast.Is, ast.IsNot)):
            for x_, y_ in ((a, b), (b, a)):
                if isinstance(y_, NoneV) and isinstance(x_, Scalar) and getattr(x_, "none_if", None) is not None:
                    return x_.none_if if isinstance(op, ast.Is) else z3.Not(x_.none_if)   # optional value of an opaque getter
            if isinstance(a, NoneV) or isinstance(b, NoneV):
                r = isinstance(a, NoneV) and isinstance(b, NoneV)
            else:
                r = a is b
            return z3.BoolVal(r if isinstance(op, ast.Is) else not r)
        for x_, y_, flip in ((a, b, False), (b, a, True)):
            lo = getattr(x_, "len_of", None)
            if lo is not None and isinstance(y_, Scalar) and z3.is_int_value(y_.z) and y_.z.as_long() == 0:
                ne = nonempty(lo[0], lo[1])
                if isinstance(op, ast.Eq):
                    return z3.Not(ne)
                if isinstance(op, ast.NotEq):
                    return ne
                if (isinstance(op, ast.Gt) and not flip) or (isinstance(op, ast.Lt) and flip):
                    return ne
        if isinstance(op, (ast.Eq, ast.NotEq)):
            z = self.equal(a, b, st)
            return z if isinstance(op, ast.Eq) else z3.Not(z)
        if isinstance(a, Coll) and isinstance(b, Coll) and a.kind in ("set", "frozenset") and b.kind in ("set", "frozenset"):
            sub_ab = subset(a.mem, b.mem, a.esort)
            sub_ba = subset(b.mem, a.mem, a.esort)
            if isinstance(op, ast.LtE):
                return sub_ab
            if isinstance(op, ast.GtE):
                return sub_ba
            if isinstance(op, ast.Lt):
                return z3.And(sub_ab, z3.Not(sub_ba))
            if isinstance(op, ast.Gt):
                return z3.And(sub_ba, z3.Not(sub_ab))
        if isinstance(a, Scalar) and isinstance(b, Scalar) and a.z.sort() in (I, R) and b.z.sort() in (I, R):
            az, bz = a.z, b.z
            if az.sort() != bz.sort():
                az = z3.ToReal(az) if az.sort() == I else az
                bz = z3.ToReal(bz) if bz.sort() == I else bz
            return {ast.Lt: az < bz, ast.LtE: az <= bz, ast.Gt: az > bz, ast.GtE: az >= bz}[type(op)]
        raise Unsupported(f"comparison {type(op).__name__} on {a!r},{b!r}")

    def equal(self, a, b, st):
        h = self.lib.equal_hook(self, a, b, st)
        if h is not None:
            return h
        if isinstance(a, NoneV) or isinstance(b, NoneV):
            return z3.BoolVal(isinstance(a, NoneV) and isinstance(b, NoneV))
        if isinstance(a, Coll) and isinstance(b, Coll):
            if a.kind in ("set", "frozenset") and b.kind in ("set", "frozenset"):
                if a.mem is None or b.mem is None:
                    o = a if b.mem is None else b
                    return z3.BoolVal(True) if o.mem is None else z3.Not(nonempty(o.mem, o.esort))
                return seteq(a.mem, b.mem, a.esort)
            if a.kind == b.kind and a.kind in ("list", "tuple") and (a.items == [] or b.items == []):
                o = b if a.items == [] else a   # comparison with the empty list / tuple literal: emptiness
                return z3.BoolVal(True) if o.mem is None else z3.Not(nonempty(o.mem, o.esort))
            raise Unsupported("list equality")
        if isinstance(a, TupleV) and isinstance(b, TupleV):
            if len(a.items) != len(b.items):
                return z3.BoolVal(False)
            return z3.And(*[self.equal(x, y, st) for x, y in zip(a.items, b.items)])
        if isinstance(a, Scalar) and is_tuple_sort(a.z.sort()) and isinstance(b, TupleV):
            return self.equal(val_of(a.z), b, st)
        if isinstance(b, Scalar) and is_tuple_sort(b.z.sort()) and isinstance(a, TupleV):
            return self.equal(a, val_of(b.z), st)
        if isinstance(a, Scalar) and isinstance(b, Scalar):
            if a.z.sort() != b.z.sort():
                if {a.z.sort(), b.z.sort()} <= {I, R}:
                    return a.z == b.z
                return z3.BoolVal(False)
            return deq(a.z, b.z)
        if isinstance(a, Coll) and a.kind == "frozenset" and isinstance(b, Scalar):
            return seteq(a.mem, b.z, a.esort)
        if isinstance(b, Coll) and b.kind == "frozenset" and isinstance(a, Scalar):
            return seteq(a.z, b.mem, b.esort)
        if isinstance(a, Obj) and isinstance(b, Obj):
            r = self.lib.obj_equal(self, a, b, st)
            if r is not None:
                return r
        raise Unsupported(f"equality of {a!r} and {b!r}")

    def contains(self, container, item, st):
        if isinstance(container, Coll):
            if container.mem is None:
                return z3.BoolVal(False)
            r = self.lib.coll_contains(self, container, item, st)
            if r is not None:
                return r
            return container.mem[z3_of(item)]
        if isinstance(container, DictV):
            if container.dom is None:
                return z3.BoolVal(False)
            return container.dom[z3_of(item)]
        if isinstance(container, Scalar) and isinstance(container.z.sort(), z3.ArraySortRef):
            return container.z[z3_of(item)]
        if isinstance(container, Scalar) and str(container.z.sort()) == "NodeSequence":
            from .lib import p_on
            return p_on(container.z, z3_of(item))
        if isinstance(container, Scalar) and container.z.sort() == Opaque:
            iz = z3_of(item)
            return z3.Function(f"opaque_contains_{iz.sort()}", Opaque, iz.sort(), B)(container.z, iz)
        if isinstance(container, Obj):
            r = self.lib.obj_contains(self, container, item, st)
            if r is not None:
                return r
        raise Unsupported(f"membership in {container!r}")

    def ex_BinOp(self, node, st):
        return self.binop(node.op, self.ev(node.left, st), self.ev(node.right, st), st)

    def binop(self, op, a, b, st):
        if isinstance(a, Coll) and isinstance(b, Coll):
            if a.kind in ("set", "frozenset") and b.kind in ("set", "frozenset"):
                a, b = self.materialise(a, b), self.materialise(b, a)
                f = {ast.BitOr: union, ast.BitAnd: inter, ast.Sub: diff}.get(type(op))
                if f is None:
                    raise Unsupported("set operator")
                return Coll(a.kind, a.esort, f(a.mem, b.mem, a.esort))
            if isinstance(op, ast.Add) and a.kind == b.kind and a.kind in ("list", "tuple"):
                a, b = self.materialise(a, b), self.materialise(b, a)
                items = (a.items + b.items) if (a.items is not None and b.items is not None and len(a.items) + len(b.items) <= 4) else None
                r = Coll(a.kind, a.esort, union(a.mem, b.mem, a.esort), items=items, nodup=False)
                la, lb = self.length_of(a, st), self.length_of(b, st)
                if la is not None and lb is not None:
                    r.len_z = la + lb
                return r
        if isinstance(op, ast.Mult) and isinstance(a, Coll) and a.kind == "list" and a.items is not None and len(a.items) == 1 \
                and isinstance(b, Scalar) and b.z.sort() == I:
            # [x] * n : n copies of x (empty for n <= 0)
            xz = z3_of(a.items[0])
            n = z3.If(b.z >= 0, b.z, z3.IntVal(0))
            y, i_ = fresh("y", xz.sort()), fresh("i", I)
            k = next(_fresh)
            at = z3.Function(f"at!{k}", I, xz.sort())
            idx = z3.Function(f"idx!{k}", xz.sort(), I)
            st.assume(z3.ForAll([i_], at(i_) == xz))
            st.assume(idx(xz) == 0)
            r = Coll("list", xz.sort(), z3.Lambda([y], z3.And(n > 0, y == xz)), nodup=False)
            r.len_z, r.seq = n, (at, idx)
            return r
        if isinstance(a, Scalar) and isinstance(b, Scalar) and a.z.sort() in (I, R) and b.z.sort() in (I, R):
            az, bz = a.z, b.z
            if az.sort() != bz.sort():
                az = z3.ToReal(az) if az.sort() == I else az
                bz = z3.ToReal(bz) if bz.sort() == I else bz
            if isinstance(op, ast.Add):
                return Scalar(az + bz)
            if isinstance(op, ast.Sub):
                return Scalar(az - bz)
            if isinstance(op, ast.Mult):
                return Scalar(az * bz)
        if isinstance(op, ast.Add) and isinstance(a, Scalar) and isinstance(b, Scalar) and a.z.sort() == Atom and b.z.sort() == Atom \
                and a.pytype == "str" and b.pytype == "str":
            # string concatenation: the literal when both operands are literals, some string otherwise
            na, nb = a.z.decl().name(), b.z.decl().name()
            if na.startswith("str:") and nb.startswith("str:") and a.z.num_args() == 0 and b.z.num_args() == 0:
                return Scalar(str_const(na[4:] + nb[4:]), "str")
            return Scalar(fresh("strcat", Atom), "str")
        r = self.lib.binop(self, op, a, b, st)
        if r is not None:
            return r
        raise Unsupported(f"binary op {type(op).__name__} on {a!r},{b!r}")

    def seq_of(self, c, st, create=True):
        r"""sequence view of an abstract list / tuple: at(i) is its i-th element, idx(x) the first position of x.
        Axioms (true of every python sequence of length n with membership mem):
            n >= 0;   0 <= i < n  =>  mem[at(i)];   mem[x]  =>  0 <= idx(x) < n  /\  at(idx(x)) = x."""
        if c.seq is not None or not create:
            return c.seq
        if c.kind not in ("list", "tuple") or c.mem is None:
            raise Unsupported("indexing an unordered or empty collection")
        n = self.length_of(c, st)
        if n is None:
            n = fresh("len", I)
            c.len_z = n
        k = next(_fresh)
        at = z3.Function(f"at!{k}", I, c.esort)
        idx = z3.Function(f"idx!{k}", c.esort, I)
        i_, x_ = fresh("i", I), fresh("x", c.esort)
        st.assume(n >= 0)
        st.assume(z3.ForAll([i_], z3.Implies(z3.And(0 <= i_, i_ < n), c.mem[at(i_)])))
        st.assume(z3.ForAll([x_], z3.Implies(c.mem[x_], z3.And(0 <= idx(x_), idx(x_) < n, at(idx(x_)) == x_))))
        c.seq = (at, idx)
        self.assumed.add("sequence view of list/tuple parameters: at/idx functions with the three list axioms (n >= 0, at(i) is a member, "
                         "every member sits at some index)")
        return c.seq

    def length_of(self, c, st):
        """symbolic len() of a collection, or None when the abstraction cannot know it."""
        if c.len_z is not None:
            return c.len_z
        if c.items is not None and (c.kind not in ("set", "frozenset") or len(c.items) <= 1):
            return z3.IntVal(len(c.items))
        if c.mem is None:
            return z3.IntVal(0)
        if c.nodup:
            return self.lib.card(self, c, st)
        return None

    def materialise(self, c, other):
        if c.mem is None:
            es = other.esort
            if es is None:
                raise Unsupported("empty collections of unknown element type")
            return Coll(c.kind, es, empty_set(es), items=c.items, nodup=c.nodup)
        return c

    def as_coll(self, v, st, esort_hint=None):
        if isinstance(v, Coll):
            if v.mem is None and esort_hint is not None:
                return Coll(v.kind, esort_hint, empty_set(esort_hint), items=v.items, nodup=v.nodup)
            return v
        if isinstance(v, TupleV):
            return self.coll_from_items("tuple", v.items)
        if isinstance(v, DictV):
            return Coll("iter", v.ksort, v.dom, nodup=True)
        if isinstance(v, Scalar) and isinstance(v.z.sort(), z3.ArraySortRef) and v.z.sort().range() == B:
            return Coll("frozenset", v.z.sort().domain(), v.z)
        if isinstance(v, Obj):
            r = self.lib.obj_iter(self, v, st)
            if r is not None:
                return r
        raise Unsupported(f"{v!r} is not iterable in the model")

    def materialise_table(self, t, st):
        """{"k": v, ...} literal whose values are names or sets of names: a concrete dict"""
        ks = [str_const(k.value) for k in t.node.keys]
        vs = [self.ev(v, st) for v in t.node.values]
        dom = empty_set(Atom)
        for k in ks:
            dom = z3.Store(dom, k, True)
        if all(isinstance(v, Scalar) and v.z.sort() == Atom for v in vs):
            val = z3.K(Atom, vs[0].z)
            for k, v in zip(ks, vs):
                val = z3.Store(val, k, v.z)
            return DictV(Atom, "scalar", dom, val, vsort=Atom)
        if all(isinstance(v, Coll) and v.esort == Atom and v.mem is not None for v in vs):
            val = z3.K(Atom, empty_set(Atom))
            for k, v in zip(ks, vs):
                val = z3.Store(val, k, v.mem)
            return DictV(Atom, ("set", Atom), dom, val)
        raise Unsupported("dict literal with values other than names / sets of names")

    def ex_Attribute(self, node, st):
        o = self.ev(node.value, st)
        if isinstance(o, LiteralTable):
            o = self.materialise_table(o, st)
        if isinstance(o, Obj):
            if node.attr in o.fields:
                return o.fields[node.attr]
            r = self.lib.obj_attr(self, o, node.attr, st)
            if r is not None:
                return r
            return BoundMethod(o, node.attr)
        if isinstance(o, ModuleV):
            if o.name == "config" and node.attr == "SHOW_PROGRESS":
                return Scalar(z3.Const("config.SHOW_PROGRESS", B))  # global switch: either value
            return ModuleV(o.name + "." + node.attr)
        if isinstance(o, Scalar):
            r = self.lib.scalar_attr(self, o, node.attr, st)
            if r is not None:
                return r
        if isinstance(o, (Coll, DictV, Scalar, TupleV)):
            return BoundMethod(o, node.attr)
        if isinstance(o, ClassV):
            return ModuleV(o.name + "." + node.attr)
        raise Unsupported(f"attribute {node.attr} of {o!r}")

    def ex_Subscript(self, node, st):
        o = self.ev(node.value, st)
        if isinstance(node.slice, ast.Slice):
            items = o.items if isinstance(o, (TupleV, Coll)) else (val_of(o.z).items if isinstance(o, Scalar) and is_tuple_sort(o.z.sort()) else None)
            if items is None and isinstance(o, Coll) and o.kind in ("list", "tuple") and node.slice.upper is None and node.slice.step is None \
                    and isinstance(node.slice.lower, ast.Constant) and isinstance(node.slice.lower.value, int) and node.slice.lower.value >= 0:
                # seq[k:] of an abstract sequence: shifted sequence view
                k = node.slice.lower.value
                at, idx = self.seq_of(o, st)
                n = o.len_z
                n2 = z3.If(n - k >= 0, n - k, z3.IntVal(0))
                y, i_ = fresh("y", o.esort), fresh("i", I)
                r = Coll(o.kind, o.esort, z3.Lambda([y], z3.Exists([i_], z3.And(k <= i_, i_ < n, at(i_) == y))), nodup=False)
                kk = next(_fresh)
                idx2 = z3.Function(f"idx!{kk}", o.esort, I)
                st.assume(z3.ForAll([y], z3.Implies(r.mem[y], z3.And(0 <= idx2(y), idx2(y) < n2, at(idx2(y) + k) == y))))
                r.len_z, r.seq = n2, ((lambda j, at=at, k=k: at(j + k)), idx2)
                return r
            if items is None:
                raise Unsupported("slice of an abstract sequence")
            lo = ast.literal_eval(node.slice.lower) if node.slice.lower is not None else None
            hi = ast.literal_eval(node.slice.upper) if node.slice.upper is not None else None
            stp = ast.literal_eval(node.slice.step) if node.slice.step is not None else None
            sub = items[slice(lo, hi, stp)]
            return TupleV(sub) if isinstance(o, (TupleV, Scalar)) else self.coll_from_items(o.kind, sub)
        k = self.ev(node.slice, st)
        if isinstance(o, DictV):
            kz = z3_of(k)
            # KeyError path is an obligation: key must be present
            self.oblige(st, o.dom[kz], "keyerror-free")
            if o.vkind == "scalar":
                return val_of(o.val[kz])
            return Coll("set", o.vkind[1], o.val[kz])
        if isinstance(o, (TupleV, Coll)) and isinstance(k, Scalar) and z3.is_int_value(z3.simplify(k.z)):
            idx = z3.simplify(k.z).as_long()
            items = o.items
            if items is not None and -len(items) <= idx < len(items):
                return items[idx]
        if isinstance(o, Scalar) and is_tuple_sort(o.z.sort()) and isinstance(k, Scalar) and z3.is_int_value(z3.simplify(k.z)):
            return val_of(o.z).items[z3.simplify(k.z).as_long()]
        r = self.lib.subscript(self, o, k, st)
        if r is not None:
            return r
        if isinstance(o, Coll) and o.kind in ("list", "tuple") and o.items is None and isinstance(k, Scalar) and k.z.sort() == I:
            at, _ = self.seq_of(o, st)
            # IndexError-free (negative indices are not modelled: the obligation demands 0 <= k < len)
            self.oblige(st, z3.And(0 <= k.z, k.z < o.len_z if o.len_z is not None else self.length_of(o, st)), "indexerror-free")
            return val_of(at(k.z))
        raise Unsupported(f"subscript on {o!r}")

    def ex_Slice(self, node, st):
        return ("slice", node.lower, node.upper, node.step)

    def ex_Lambda(self, node, st):
        return Closure(node, st.env)

    def comp_generic(self, node, st, kind):
        """[elt for t1 in it1 if c1 for t2 in it2(t1) if c2 ...] as {y | exists t1.. : guards and y = elt}.
        Later iterables/conditions are evaluated under the earlier guards (their obligations need them)."""
        gens = node.generators
        if len(gens) == 1:
            g = gens[0]
            it0 = self.as_coll(self.ev(g.iter, st), st)
            if it0.items is not None and len(it0.items) <= 4 and not g.ifs:
                items = []
                for item in it0.items:
                    saved = dict(st.env)
                    self.assign(g.target, item, st)
                    items.append(self.ev(node.elt, st))
                    st.env.clear()
                    st.env.update(saved)
                return self.coll_from_items(kind, items)
        saved = dict(st.env)
        # the first iterable does not depend on the bound variables: whatever it creates (e.g. the result of a contracted
        # callee) is created once, outside the comprehension
        first_it = self.as_coll(self.ev(gens[0].iter, st), st)
        mark = len(st.pc)
        c0 = next(_fresh)
        conds, bound, nodup_src, ident = [], [], True, None
        try:
            for gi, g in enumerate(gens):
                it = first_it if gi == 0 else self.as_coll(self.ev(g.iter, st), st)
                if it.mem is None:
                    return Coll(kind, None, None, items=[])
                if is_tuple_sort(it.esort):
                    ctor = it.esort.constructor(0)
                    xs = [fresh("cc", ctor.domain(i)) for i in range(ctor.arity())]
                    x = ctor(*xs)
                else:
                    x = fresh("c", it.esort)
                    xs = [x]
                bound += xs
                nodup_src = nodup_src and it.nodup
                self.assign(g.target, val_of(x), st)
                guard = it.mem[x]
                conds.append(guard)
                st.pc.append(guard)
                for c in g.ifs:
                    cz = self.truth_z(st, self.ev(c, st))
                    conds.append(cz)
                    st.pc.append(cz)
                if len(gens) == 1:
                    ident = x
            e = self.ev(node.elt, st)
        finally:
            added = st.pc[mark:]
            del st.pc[mark:]
            st.env.clear()
            st.env.update(saved)
        # facts learnt while evaluating under the guards (e.g. callee postconditions) become part of the body
        extra = [a for a in added if not any(a.eq(c) for c in conds)]
        ez = z3_of(e)
        body_conds = conds + extra
        if any(isinstance(c.sort(), z3.ArraySortRef) for f in body_conds + [ez] for c in self.fresh_consts_in(f, c0)
               if not any(c.eq(b) for b in bound)):
            raise Unsupported("comprehension body creates per-element fresh collections")
        more = []
        for f in body_conds + [ez]:
            for c in self.fresh_consts_in(f, c0):
                if not any(c.eq(b) for b in bound + more):
                    more.append(c)
        if extra:
            # the facts were derived for an arbitrary element under the guards evaluated before them (callee postconditions whose
            # preconditions were obliged under those guards, library axioms): by generalisation they hold for every such element -
            # needed when the comprehension is used negatively (e.g. "no element fails the test")
            seen_conds, facts = [], []
            for a in added:
                if any(a.eq(c) for c in conds):
                    seen_conds.append(a)
                    continue
                facts.append(a)
                mf = [c for c in more if any(c.eq(k) for f in facts for k in self.fresh_consts_in(f, c0))]
                body = z3.And(*facts)
                if mf:
                    body = z3.Exists(mf, body)
                st.assume(z3.ForAll(bound, z3.Implies(z3.And(*seen_conds) if seen_conds else z3.BoolVal(True), body)))
        y = fresh("y", ez.sort())
        if ident is not None and ez.eq(ident) and not more and len(bound) == 1:
            mem = z3.Lambda([ident], z3.And(*body_conds))
        else:
            mem = z3.Lambda([y], z3.Exists(bound + more, z3.And(*body_conds, deq(y, ez))))
        return Coll(kind, ez.sort(), mem, nodup=(kind != "list") or (nodup_src and ident is not None and ez.eq(ident)))

    def ex_DictComp(self, node, st):
        if len(node.generators) != 1:
            raise Unsupported("dict comprehension form")
        g = node.generators[0]
        it = self.as_coll(self.ev(g.iter, st), st)
        if it.mem is None:
            return DictV(None, "scalar", None, None)
        src = getattr(it, "items_of", None)
        if g.ifs and src is None:
            raise Unsupported("filtered dict comprehension over something else than dict.items()")
        x = fresh("k", it.esort)
        saved = dict(st.env)
        mark = len(st.pc)
        try:
            self.assign(g.target, val_of(x), st)
            st.pc.append(it.mem[x])
            conds = [self.truth_z(st, self.ev(c, st)) for c in g.ifs]
            k = self.ev(node.key, st)
            v = self.ev(node.value, st)
        finally:
            del st.pc[mark:]
            st.env.clear()
            st.env.update(saved)
        vz = z3_of(v)
        if src is not None:
            # {f(k, v) ...  for k, v in d.items() if c(k, v)} with the key kept: a sub-dictionary of d with mapped values
            if not z3.simplify(z3_of(k) == it.esort.accessor(0, 0)(x)).eq(z3.BoolVal(True)) and not z3_of(k).eq(it.esort.accessor(0, 0)(x)):
                raise Unsupported("dict comprehension over items() whose key is not the item's key")
            k2 = fresh("k", src.ksort)
            pair = it.esort.constructor(0)(k2, src.val[k2])
            keep = z3.substitute(z3.And(*conds) if conds else z3.BoolVal(True), (x, pair))
            val = z3.substitute(vz, (x, pair))
            return DictV(src.ksort, "scalar", z3.Lambda([k2], z3.And(src.dom[k2], keep)), z3.Lambda([k2], val), vsort=vz.sort())
        if not z3_of(k).eq(x):
            raise Unsupported("dict comprehension whose key is not the loop variable")
        return DictV(it.esort, "scalar", it.mem, z3.Lambda([x], vz), vsort=vz.sort())

    def ex_ListComp(self, node, st):
        return self.comp_generic(node, st, "list")

    def ex_SetComp(self, node, st):
        return self.comp_generic(node, st, "set")

    def ex_GeneratorExp(self, node, st):
        return self.comp_generic(node, st, "list")

    def ex_Call(self, node, st):
        f = self.ev(node.func, st)
        if any(isinstance(a, ast.Starred) for a in node.args):
            args = []
            for a in node.args:
                if isinstance(a, ast.Starred):
                    v = self.ev(a.value, st)
                    items = v.items if isinstance(v, (TupleV, Coll)) else None
                    if isinstance(v, Scalar) and is_tuple_sort(v.z.sort()):
                        items = val_of(v.z).items
                    if items is None:
                        args.append(self.as_coll(v, st))  # abstract *args: passed as the collection itself
                    else:
                        args += items
                else:
                    args.append(self.ev(a, st))
        else:
            args = [self.ev(a, st) for a in node.args]
        kwargs = {}
        for k in node.keywords:
            if k.arg is None:
                kv = self.ev(k.value, st)
                if not isinstance(kv, KwArgs):
                    raise Unsupported("** of a non-captured mapping")
                kwargs.update(kv.d)
            else:
                kwargs[k.arg] = self.ev(k.value, st)
        return self.call_value(f, args, kwargs, st, node)

    def call_value(self, f, args, kwargs, st, node):
        if isinstance(f, ModuleV):
            if f.name.startswith("builtins."):
                return self.builtin(f.name[9:], args, kwargs, st, node)
            r = self.lib.call_function(self, f.name, args, kwargs, st, node)
            if r is not NotImplemented:
                self.used_lib.add(f.name)
                return r
            raise Unsupported(f"no library contract for {f.name}")
        if isinstance(f, BoundMethod):
            return self.call_method(f.recv, f.name, args, kwargs, st, node)
        if isinstance(f, Closure):
            q = getattr(f, "qual", None)
            if q in REGISTRY and REGISTRY[q] is not self.contract:
                return self.apply_contract(REGISTRY[q], None, args, kwargs, st)
            return self.inline(f, args, kwargs, st)
        if isinstance(f, OpaqueFn):
            return self.call_opaque(f, args, kwargs, st)
        if isinstance(f, Coll) and not args:
            return f  # NodeView / EdgeView called as G.nodes() / G.edges()
        if isinstance(f, ClassV):
            r = self.lib.construct(self, f.name, args, kwargs, st, node)
            if r is not NotImplemented:
                return r
            raise Unsupported(f"constructor {f.name}")
        raise Unsupported(f"call of {f!r}")

    def call_method(self, recv, name, args, kwargs, st, node):
        if isinstance(recv, Coll):
            return self.coll_method(recv, name, args, kwargs, st)
        if isinstance(recv, DictV):
            return self.dict_method(recv, name, args, kwargs, st)
        if isinstance(recv, Scalar) and recv.pytype in self.classes:
            for cname in self.classes[recv.pytype].get("mro", [recv.pytype]):
                q = f"{cname}.{name}"
                if q in REGISTRY:
                    return self.apply_contract(REGISTRY[q], recv, args, kwargs, st)
                loc = self.classes.get(cname, {}).get("file")
                if loc:
                    try:
                        fdef, _, _ = self.src.find(loc, q)
                    except Unsupported:
                        fdef = None
                    if fdef is not None:
                        self.inlined.add(q)
                        return self.inline(Closure(fdef, {}, q), [recv] + list(args), kwargs, st)
        if isinstance(recv, Obj) and name in recv.fields.get("__opaque__", {}):
            return self.call_opaque(recv.fields["__opaque__"][name], args, kwargs, st)
        if isinstance(recv, Obj):
            # 1. contract on a repo method  2. library contract  3. inline repo source
            if recv.cls.startswith("super:"):
                # the next class in the receiver's MRO has a sidecar contract for this method: the call is checked against it
                tgt = getattr(recv, "target", None)
                mro = self.classes.get(tgt.cls, {}).get("mro", []) if tgt is not None else []
                after = recv.cls[len("super:"):]
                if after in mro and mro.index(after) + 1 < len(mro):
                    q = f"{mro[mro.index(after) + 1]}.{name}"
                    if q in REGISTRY:
                        return self.apply_contract(REGISTRY[q], tgt, args, kwargs, st)
                r = self.lib.call_method(self, recv.cls, recv, name, args, kwargs, st, node)
                if r is not NotImplemented:
                    return r
                raise Unsupported(f"super().{name}")
            if recv.fields.get("__cpds__") and name == "get_cpds":
                # a receiver declared with the functional CPD model (one CPD object per node, see lib.call_method): that model, not the
                # list-based contract of get_cpds, answers the lookup
                r = self.lib.call_method(self, recv.cls, recv, name, args, kwargs, st, node)
                if r is not NotImplemented:
                    return r
            for cname in self.classes.get(recv.cls, {}).get("mro", [recv.cls]):
                q = f"{cname}.{name}"
                if q in REGISTRY:
                    return self.apply_contract(REGISTRY[q], recv, args, kwargs, st)
                r = self.lib.call_method(self, cname, recv, name, args, kwargs, st, node)
                if r is not NotImplemented:
                    return r
                loc = self.classes.get(cname, {}).get("file")
                if loc:
                    try:
                        fdef, _, _ = self.src.find(loc, q)
                    except Unsupported:
                        fdef = None
                    if fdef is not None:
                        self.inlined.add(q)
                        return self.inline(Closure(fdef, {}, q), [recv] + list(args), kwargs, st)
            raise Unsupported(f"no contract / source / library contract for {recv.cls}.{name}")
        r = self.lib.call_method(self, type(recv).__name__, recv, name, args, kwargs, st, node)
        if r is not NotImplemented:
            return r
        if isinstance(recv, Scalar) and recv.z.sort() == Opaque:
            self.assumed.add(f"method .{name}() of an opaque object (CPD / progress bar / ...) has no effect on the modelled state")
            if name in ("scope", "get_evidence") and not args:
                # a list of variable names, a pure function of the object
                f = z3.Function(f"opaque_{name}", Opaque, set_sort(Atom))
                return Coll("list", Atom, f(recv.z), nodup=True)   # a scope lists each variable once (class invariant of factors)
            return Scalar(fresh(f"opq_{name}", Opaque))
        raise Unsupported(f"method {name} on {recv!r}")

    def encode_arg(self, v):
        """z3 encoding(s) of a value passed to an uninterpreted function."""
        if isinstance(v, Coll):
            if v.mem is None:
                raise Unsupported("empty untyped collection passed to an opaque function")
            return [v.mem]  # order / multiplicity of list arguments is abstracted (stated assumption)
        if isinstance(v, Obj) and "@E" in v.fields:
            return [v.fields["@nodes"], v.fields["@E"]]
        if isinstance(v, NoneV):
            return []
        return [z3_of(v)]

    def call_opaque(self, f, args, kwargs, st):
        zs = []
        for a in list(args) + [kwargs[k] for k in sorted(kwargs)]:
            zs += self.encode_arg(a)
        if not f.pure:
            # the result may depend on hidden mutable state: an arbitrary function of the arguments *at this call*
            if not zs:
                return Scalar(fresh(f.name + "_ret", f.rsort))
            g = z3.Function(f"{f.name}_at!{next(_fresh)}", *[z.sort() for z in zs], f.rsort)
            return Scalar(g(*zs))
        key = (f.name, tuple(str(z.sort()) for z in zs))
        decls = self.__dict__.setdefault("_opaque_decls", {})
        if key not in decls:
            decls[key] = z3.Function(f"{f.name}#{len(decls)}", *[z.sort() for z in zs], f.rsort) if zs else None
            if zs and any(isinstance(z.sort(), z3.ArraySortRef) for z in zs):
                # extensional congruence for set-valued arguments (arrays built differently but with the same
                # members must give the same value): forall args, args'. (args ==ext args') => f(args) == f(args')
                d = decls[key]
                xs = [fresh("ca", z.sort()) for z in zs]
                ys = [fresh("cb", z.sort()) for z in zs]
                ax = z3.ForAll(xs + ys, z3.Implies(z3.And(*[deq(x, y) for x, y in zip(xs, ys)]), d(*xs) == d(*ys)),
                               patterns=[z3.MultiPattern(d(*xs), d(*ys))])
                self.axioms.append(ax)
        self.assumed.add(f"{f.name}(...) is an uninterpreted pure function of its arguments (list arguments by membership only)")
        if not zs:
            return Scalar(z3.Const(f.name + "()", f.rsort))
        return Scalar(decls[key](*zs))

    def apply_contract(self, c, recv, args, kwargs, st):
        self.used_contracts.add(c.qual)
        cargs = c.bind(self, recv, args, kwargs, st)
        self.oblige(st, c.pre(self, st, cargs), f"call.{c.qual}.pre")
        exc = c.raises(self, st, cargs)
        for cls, cond in exc.items():
            if self.contract is not None and c.qual in getattr(self.contract, "propagates", ()) and self.inline_depth == 0:
                # exception propagation (opt-in per caller contract): decide the callee's raise condition on this path, splitting the
                # path when it is open; on the raising side the callee's on_raise state holds and the statement ends with the exception
                if self.dry:
                    continue
                if self.entails(st, z3.Not(cond), 2000):
                    continue
                if not self.entails(st, cond, 2000):
                    raise NeedSplit(cond)
                if not getattr(c, "raises_leave_state", False):
                    old = c.snapshot(self, st, cargs)
                    c.havoc(self, st, cargs)
                    st.assume(c.on_raise(self, st, cargs, old, cls), f"contract:{c.qual} raises {cls}")
                # (a callee whose contract proves "rejected => nothing changed" keeps the very same state terms)
                raise Raised(cls)
            # callee would raise: the caller must exclude it
            self.oblige(st, z3.Not(cond), f"call.{c.qual}.no-{cls}")
        if not getattr(c, "pure", False) and type(c).havoc is Contract.havoc:
            # a callee that may change state must say which state it havocs: without that its postcondition would constrain the
            # pre-state terms and could contradict them (everything after the call would then be proved from False)
            raise Unsupported(f"contract of {c.qual} is applied at a call site but neither declares `pure` nor defines havoc()")
        old = c.snapshot(self, st, cargs)
        c.havoc(self, st, cargs)
        res = c.make_result(self, st, cargs)
        pf = c.post(self, st, cargs, old, res)
        if isinstance(pf, dict):
            pf = z3.And(*[v for k, v in pf.items() if not k.startswith("as-is")])
        mark = len(st.pc)
        st.assume(pf, f"contract:{c.qual}")
        if not self.dry:
            # vacuity guard at the call site: the callee's postcondition must not turn a satisfiable path condition into a contradiction
            after, _, _, _ = solve_cover(self.axioms + st.pc, 600)
            if after == "vacuous":
                before, _, _, _ = solve_cover(self.axioms + st.pc[:mark], 600)
                if before != "vacuous":
                    raise Unsupported(f"postcondition of {c.qual} contradicts the path condition at this call site (contract or model error)")
        return res if res is not None else NONE

    def inline(self, clo, args, kwargs, st):
        if self.inline_depth >= self.max_inline:
            raise Unsupported("inline depth")
        fdef = clo.fdef
        env = dict(clo.env)
        if isinstance(fdef, ast.Lambda):
            self.bind_params(fdef.args, args, kwargs, env, st)
            s_env = st.env
            st.env = env
            try:
                return self.ev(fdef.body, st)
            finally:
                st.env = s_env
        self.bind_params(fdef.args, args, kwargs, env, st)
        s_env = st.env
        st.env = env
        self.inline_depth += 1
        try:
            outs = self.exec_block(self.strip_doc(fdef.body), st)
        finally:
            self.inline_depth -= 1
        # inlined calls must be single-path (after pruning) to stay an expression
        live = [(s, o) for s, o in outs]
        if len(live) != 1:
            # try: decide via NeedSplit on the distinguishing condition is not available here
            raise Unsupported(f"inlined call to {getattr(fdef, 'name', 'lambda')} forks into {len(live)} paths")
        s, o = live[0]
        st.env = s_env
        st.pc = s.pc
        st.trace = s.trace
        if o.kind == "return":
            return o.value
        if o.kind == "normal":
            return NONE
        raise Unsupported(f"inlined call ends with {o.kind}")

    def strip_doc(self, body):
        if body and isinstance(body[0], ast.Expr) and isinstance(body[0].value, ast.Constant) and isinstance(body[0].value.value, str):
            return body[1:]
        return body

    def bind_params(self, a, args, kwargs, env, st):
        names = [x.arg for x in a.posonlyargs + a.args]
        defaults = a.defaults
        vals = {}
        args = list(args)
        for i, n in enumerate(names):
            if i < len(args):
                vals[n] = args[i]
            elif n in kwargs:
                vals[n] = kwargs[n]
            else:
                di = i - (len(names) - len(defaults))
                if di < 0:
                    raise Unsupported(f"missing argument {n}")
                vals[n] = self.ev(defaults[di], st)
        if a.vararg:
            vals[a.vararg.arg] = TupleV(args[len(names):])
        elif len(args) > len(names):
            raise Unsupported("too many arguments")
        for i, k in enumerate(a.kwonlyargs):
            if k.arg in kwargs:
                vals[k.arg] = kwargs[k.arg]
            elif a.kw_defaults[i] is not None:
                vals[k.arg] = self.ev(a.kw_defaults[i], st)
        if a.kwarg:
            extra = {k: v for k, v in kwargs.items() if k not in names and k not in [x.arg for x in a.kwonlyargs]}
            vals[a.kwarg.arg] = KwArgs(extra)
        env.update(vals)

    # ------------------------------------------------------------------ builtins
    def builtin(self, name, args, kwargs, st, node):
        if name in ("set", "frozenset", "list", "tuple", "iter"):
            if not args:
                return Coll(name, None, None, items=[])
            if name in ("set", "frozenset") and isinstance(args[0], Scalar) and args[0].z.sort() == Atom and getattr(args[0], "pytype", None) == "clique":
                # a node label that is itself a collection of names (a clique of a cluster graph): its member set is a function of the label
                return Coll(name, Atom, label_members(args[0].z), nodup=True)
            c = self.as_coll(args[0], st)
            kind = name if name != "iter" else "iter"
            items = c.items if name in ("list", "tuple") and c.kind in ("list", "tuple") else None
            if name in ("list", "tuple") and c.items is not None and len(c.items) <= 1:
                items = c.items
            nodup = True if name in ("set", "frozenset") else c.nodup
            r = Coll(kind, c.esort, c.mem, items=items, nodup=nodup)
            if name in ("list", "tuple", "iter"):
                r.ord, r.len_z = c.ord, c.len_z
                if name in ("list", "tuple") and c.kind in ("list", "tuple"):
                    r.seq = c.seq = self.seq_of(c, st, create=False) or c.seq
                    r.len_z = c.len_z
            return r
        if name == "range":
            if len(args) != 1 or kwargs:
                raise Unsupported("range() with start/step")
            n = z3_of(args[0])
            if n.sort() != I:
                raise Unsupported("range() of a non-integer")
            if z3.is_int_value(z3.simplify(n)) and z3.simplify(n).as_long() <= 4:
                return self.coll_from_items("list", [Scalar(z3.IntVal(i)) for i in range(max(0, z3.simplify(n).as_long()))])
            i_ = fresh("i", I)
            mem = fresh("range", set_sort(I))
            st.assume(z3.ForAll([i_], mem[i_] == z3.And(0 <= i_, i_ < n)))
            r = Coll("list", I, mem, nodup=True)
            r.len_z = z3.If(n >= 0, n, z3.IntVal(0))
            return r
        if name == "isinstance":
            r = self.lib.isinstance_hook(self, args[0], node.args[1], st)
            if r is not None:
                return Scalar(r)
            return Scalar(z3.BoolVal(self.isinstance_(args[0], node.args[1], st)))
        if name == "enumerate" and len(args) == 1 and isinstance(args[0], (Coll, TupleV)) and args[0].items is not None:
            return self.coll_from_items("list", [TupleV([Scalar(z3.IntVal(i)), x]) for i, x in enumerate(args[0].items)]) if len(args[0].items) > 0 \
                else Coll("list", None, None, items=[])
        if name == "enumerate" and len(args) == 1 and isinstance(args[0], Coll) and args[0].kind in ("list", "tuple") and args[0].items is None:
            # enumerate(seq) over an abstract sequence: the pairs (i, seq[i])
            c = args[0]
            at, _ = self.seq_of(c, st)
            ps = tuple_sort([I, c.esort])
            p = fresh("p", ps)
            i0 = ps.accessor(0, 0)(p)
            r = Coll("iter", ps, z3.Lambda([p], z3.And(0 <= i0, i0 < c.len_z, ps.accessor(0, 1)(p) == at(i0))), nodup=True)
            return r
        if name == "len":
            v = args[0]
            if isinstance(v, (Coll, TupleV)) and v.items is not None:
                if isinstance(v, Coll) and v.kind in ("set", "frozenset") and len(v.items) > 1:
                    raise Unsupported("len of a set literal with possibly equal members")
                return Scalar(z3.IntVal(len(v.items)))
            if isinstance(v, Coll):
                n = self.length_of(v, st)
                if n is None and v.kind in ("list", "tuple") and v.mem is not None:
                    self.seq_of(v, st)   # the list has *some* length n >= 0, tied to its members by the sequence-view axioms
                    n = v.len_z
                if n is None:
                    raise Unsupported("len() of a list whose multiplicities are abstracted")
                r = Scalar(n)
                if v.mem is not None:
                    r.len_of = (v.mem, v.esort)  # lets `len(x) == 0` / `!= 0` / `> 0` be read as (non-)emptiness directly
                return r
            if isinstance(v, Scalar) and isinstance(v.z.sort(), z3.ArraySortRef):
                return Scalar(self.lib.card(self, Coll("frozenset", v.z.sort().domain(), v.z), st))
            r = self.lib.len_hook(self, v, st)
            if r is not None:
                return Scalar(r)
            raise Unsupported("len")
        if name == "hasattr":
            v = args[0]
            attr = node.args[1].value if isinstance(node.args[1], ast.Constant) else None
            if attr == "__iter__":
                return Scalar(z3.BoolVal(isinstance(v, (Coll, DictV, TupleV)) or (isinstance(v, Scalar) and (v.pytype == "str" or isinstance(v.z.sort(), z3.ArraySortRef)))))
            raise Unsupported("hasattr")
        if name == "sorted":
            return self.lib.sorted_(self, args[0], st)
        if name == "sum" and len(args) == 2 and isinstance(args[1], Coll) and args[1].items == []:
            # sum(list of lists, []) : flatten
            outer = args[0]
            return self.lib.flatten(self, outer, st)
        if name == "any" or name == "all":
            c = self.as_coll(args[0], st)
            if c.mem is None:
                return Scalar(z3.BoolVal(name == "all"))
            if c.esort == B:
                return Scalar(c.mem[z3.BoolVal(True)] if name == "any" else z3.Not(c.mem[z3.BoolVal(False)]))
            raise Unsupported("any/all over non-bool")
        if name == "super":
            return self.lib.super_(self, args, st)
        if name == "set.union" and len(args) == 1 and isinstance(args[0], Coll) and isinstance(args[0].esort, z3.ArraySortRef) and not kwargs:
            # set.union(*sets) with an abstract sequence of sets: the union of all of them (TypeError when there is none)
            c = args[0]
            self.oblige(st, nonempty(c.mem, c.esort), "set.union-needs-an-argument")
            es = c.esort.domain()
            e = fresh("e", es)
            d = getattr(c, "values_of", None)
            if d is not None:
                k = fresh("k", d.ksort)
                return Coll("set", es, z3.Lambda([e], z3.Exists([k], z3.And(d.dom[k], d.val[k][e]))))
            S = fresh("S", c.esort)
            return Coll("set", es, z3.Lambda([e], z3.Exists([S], z3.And(c.mem[S], S[e]))))
        if name == "hash":
            return Scalar(self.lib.hash_(self, args[0], st))
        if name in ("min", "max") and len(args) == 1 and isinstance(args[0], (DictV, Coll)):
            # arg-min/arg-max over a collection: modelled as *some* member (sound over-approximation of the choice)
            c = self.as_coll(args[0], st)
            if c.mem is None:
                if "default" in kwargs:
                    return kwargs["default"]
                raise Unsupported("min/max of an empty literal")
            ne = nonempty(c.mem, c.esort)
            if "default" in kwargs:
                # max(it, default=d): d exactly when the iterable is empty (the path is split on emptiness when open)
                if self.dry:
                    pass   # type-inference run: follow the non-empty side
                elif self.entails(st, z3.Not(ne), 2000):
                    return kwargs["default"]
                elif not self.entails(st, ne, 2000):
                    raise NeedSplit(ne)
            else:
                self.oblige(st, ne, f"{name}-nonempty")
            x = fresh(name, c.esort)
            st.assume(c.mem[x])
            key = kwargs.get("key")
            if isinstance(key, Closure) and isinstance(key.fdef, ast.Lambda):
                # the result is extremal for the key among the members (which of several extremal ones is not modelled)
                y = fresh("y", c.esort)
                ky, kx = z3_of(self.inline(key, [val_of(y)], {}, st)), z3_of(self.inline(key, [val_of(x)], {}, st))
                if ky.sort() in (I, R):
                    st.assume(z3.ForAll([y], z3.Implies(c.mem[y], (ky <= kx) if name == "max" else (kx <= ky))))
                    self.assumed.add("min()/max() with a numeric key lambda returns a member that is extremal for the key (which one of several is not modelled)")
                    return val_of(x)
            self.assumed.add("min()/max() over a collection returns an arbitrary member (which one is not modelled)")
            return val_of(x)
        if name == "filter" and len(args) == 2 and isinstance(args[0], Closure):
            c = self.as_coll(args[1], st)
            if c.mem is None:
                return Coll("list", None, None, items=[])
            x = fresh("f", c.esort)
            keep = self.truth_z(st, self.inline(args[0], [val_of(x)], {}, st))
            r = Coll("list", c.esort, z3.Lambda([x], z3.And(c.mem[x], keep)), nodup=c.nodup)
            r.ord = c.ord
            return r
        if name == "map" and len(args) == 2 and isinstance(args[0], Closure):
            c = self.as_coll(args[1], st)
            if c.mem is None:
                return Coll("list", None, None, items=[])
            x = fresh("m", c.esort)
            e = self.inline(args[0], [val_of(x)], {}, st)
            ez = z3_of(e)
            y = fresh("y", ez.sort())
            return Coll("list", ez.sort(), z3.Lambda([y], z3.Exists([x], z3.And(c.mem[x], deq(y, ez)))), nodup=False)
        if name == "dict" and not args:
            return DictV(None, "scalar", None, None)
        if name in ("str",) and isinstance(args[0], Scalar):
            if args[0].pytype == "str" or args[0].z.sort() != Atom:
                return args[0]
            # str(label) of a label that need not be a string: some string, the same for equal labels, not necessarily different for
            # different labels (str(1) == str("1"))
            return Scalar(z3.Function("str_of", Atom, Atom)(args[0].z), "str")
        if name == "int" and len(args) == 1 and isinstance(args[0], Scalar) and args[0].z.sort() == I:
            return args[0]
        raise Unsupported(f"builtin {name} on {[type(a).__name__ for a in args]} {sorted(kwargs)}")

    def isinstance_(self, v, tnode, st):
        names = []
        for t in tnode.elts if isinstance(tnode, ast.Tuple) else [tnode]:
            names.append(t.attr if isinstance(t, ast.Attribute) else getattr(t, "id", "?"))
        for n in names:
            if n in ("list", "tuple", "set", "frozenset"):
                if isinstance(v, Coll) and v.kind == n:
                    return True
                if n == "tuple" and isinstance(v, TupleV) and not getattr(v, "is_list", False):
                    return True
                if n == "list" and isinstance(v, TupleV) and getattr(v, "is_list", False):
                    return True
                if n == "frozenset" and isinstance(v, Scalar) and isinstance(v.z.sort(), z3.ArraySortRef):
                    return True
            elif n in ("str", "int"):
                if isinstance(v, Scalar):
                    if v.z.sort() == I and n == "int":
                        return True
                    if v.z.sort() == Atom:
                        if v.pytype is None:
                            raise Unsupported("isinstance(atom, str/int) with unspecified python type (add a variant to the contract)")
                        if v.pytype == n:
                            return True
            elif n == "dict":
                if isinstance(v, DictV):
                    return True
            elif n == "bool":
                if isinstance(v, Scalar) and v.z.sort() == B:
                    return True
            else:
                if isinstance(v, Obj) and n in self.classes.get(v.cls, {}).get("mro", [v.cls]):
                    return True
                if isinstance(v, Scalar) and v.pytype == n:
                    return True
        return False

    # ------------------------------------------------------------------ collection methods
    def coll_method(self, c, name, args, kwargs, st):
        rec = getattr(c, "recording", None)
        if rec is not None:
            if name in ("add", "append"):
                rec.append(("elem", z3_of(args[0])))
                return NONE
            if name in ("update", "extend") and len(args) == 1:
                o = self.as_coll(args[0], st)
                if o.mem is not None:
                    rec.append(("coll", o.mem))
                return NONE
            raise Unsupported(f"emission target used for {name} inside a summarised loop")
        es = c.esort
        if name == "append" and getattr(c, "maxlen", None) is not None:
            # collections.deque(maxlen=n).append(x): with n == 0 nothing is kept; otherwise old entries may drop out on the left:
            # afterwards the content is some subset of old + {x} (which entries survive is not modelled)
            z = z3_of(args[0])
            if c.mem is None:
                c.esort, c.mem = z.sort(), empty_set(z.sort())
            y = fresh("y", c.esort)
            new = fresh("deque", set_sort(c.esort))
            st.assume(z3.ForAll([y], z3.Implies(new[y], z3.And(c.maxlen != 0, z3.Or(c.mem[y], deq(y, z))))))
            c.mem, c.items, c.nodup, c.len_z, c.seq = new, None, False, None, None
            return NONE
        if name == "add" or name == "append":
            z = z3_of(args[0])
            if c.mem is None:
                c.esort, c.mem = z.sort(), empty_set(z.sort())
            was_empty = c.items == []
            len_before = c.len_z
            if name == "append" and not was_empty:
                prev = c.nodup_z if c.nodup_z is not None else z3.BoolVal(bool(c.nodup))
                c.nodup_z = z3.And(prev, z3.Not(c.mem[z]))
                c.nodup = False
                c.len_z = None
            keep_seq = None
            if name == "append" and c.seq is not None and c.kind == "list" and not was_empty:
                # a list that already has a sequence view keeps it: the new element sits at position len
                keep_seq = (c.seq[0], len_before)
            c.seq = None
            if keep_seq is not None and keep_seq[1] is not None:
                at0, n0 = keep_seq
                kk = next(_fresh)
                at2 = z3.Function(f"at!{kk}", I, z.sort())
                idx2 = z3.Function(f"idx!{kk}", z.sort(), I)
                i_, y_ = fresh("i", I), fresh("y", z.sort())
                st.assume(z3.ForAll([i_], at2(i_) == z3.If(i_ == n0, z, at0(i_))))
                st.assume(z3.ForAll([y_], z3.Implies(z3.Or(c.mem[y_], y_ == z), z3.And(0 <= idx2(y_), idx2(y_) < n0 + 1, at2(idx2(y_)) == y_))))
                c.seq, c.len_z = (at2, idx2), n0 + 1
            if not deq(z, z).eq(z == z):
                y = fresh("y", z.sort())
                old_mem = c.mem
                c.mem = z3.Lambda([y], z3.Or(old_mem[y], deq(y, z)))  # structured element: extensional membership
            else:
                c.mem = z3.Store(c.mem, z, True)
            c.items = [args[0]] if was_empty else None
            return NONE
        if name in ("update", "extend", "union", "intersection", "difference", "difference_update", "intersection_update",
                    "issubset", "issuperset", "isdisjoint", "symmetric_difference"):
            others = [self.as_coll(a, st) for a in args]
            if name in ("update", "extend"):
                for o in others:
                    if o.mem is None:
                        continue
                    if c.mem is None:
                        c.esort, c.mem = o.esort, empty_set(o.esort)
                    c.mem = union(c.mem, o.mem, c.esort)
                    c.items = None
                    if name == "extend":
                        c.nodup = False
                return NONE
            if c.mem is None:
                o0 = next((o for o in others if o.mem is not None), None)
                if o0 is None:
                    if name in ("issubset", "issuperset", "isdisjoint"):
                        return Scalar(z3.BoolVal(True))
                    return Coll(c.kind, None, None, items=[])
                c = Coll(c.kind, o0.esort, empty_set(o0.esort), items=[])
            others = [self.materialise(o, c) for o in others]
            if name == "union":
                m = c.mem
                for o in others:
                    m = union(m, o.mem, c.esort)
                return Coll(c.kind, c.esort, m)
            if name == "intersection":
                m = c.mem
                for o in others:
                    m = inter(m, o.mem, c.esort)
                return Coll(c.kind, c.esort, m)
            if name == "difference":
                m = c.mem
                for o in others:
                    m = diff(m, o.mem, c.esort)
                return Coll(c.kind, c.esort, m)
            if name == "difference_update":
                for o in others:
                    c.mem = diff(c.mem, o.mem, c.esort)
                c.items = None
                return NONE
            if name == "intersection_update":
                for o in others:
                    c.mem = inter(c.mem, o.mem, c.esort)
                c.items = None
                return NONE
            if name == "issubset":
                return Scalar(subset(c.mem, others[0].mem, c.esort))
            if name == "issuperset":
                return Scalar(subset(others[0].mem, c.mem, c.esort))
            if name == "isdisjoint":
                x = fresh("x", c.esort)
                return Scalar(z3.ForAll([x], z3.Not(z3.And(c.mem[x], others[0].mem[x]))))
        if name == "pop" and c.kind == "set" and not args:
            x = fresh("pop", es)
            self.oblige(st, nonempty(c.mem, es), "pop-nonempty")
            st.assume(c.mem[x])
            c.mem = z3.Store(c.mem, x, False)
            c.items = None
            return val_of(x)
        if name in ("remove", "discard"):
            z = z3_of(args[0])
            if c.mem is None:
                if name == "remove":
                    self.oblige(st, z3.BoolVal(False), "remove-present")
                return NONE
            if name == "remove":
                self.oblige(st, c.mem[z], "remove-present")
                if c.kind == "list" and not c.nodup:
                    raise Unsupported("list.remove on a list that may hold duplicates")
            c.mem = z3.Store(c.mem, z, False)
            c.items = None
            c.len_z, c.seq = None, None   # positions shift: the sequence view is rebuilt on demand
            return NONE
        if name == "copy":
            return Coll(c.kind, c.esort, c.mem, items=list(c.items) if c.items is not None else None, nodup=c.nodup)
        if name == "clear":
            c.mem = empty_set(c.esort) if c.esort is not None else None
            c.items = []
            return NONE
        raise Unsupported(f"collection method {name}")

    def dict_method(self, d, name, args, kwargs, st):
        if name == "keys":
            return Coll("iter", d.ksort, d.dom, nodup=True)
        if name == "items" and not args and d.vkind == "scalar":
            if d.dom is None:
                return Coll("iter", None, None, items=[])
            ps = tuple_sort([d.ksort, d.vsort if d.vsort is not None else d.val.sort().range()])
            p = fresh("p", ps)
            r = Coll("iter", ps, z3.Lambda([p], z3.And(d.dom[ps.accessor(0, 0)(p)], ps.accessor(0, 1)(p) == d.val[ps.accessor(0, 0)(p)])), nodup=True)
            r.items_of = d
            return r
        if name == "values" and not args and isinstance(d.vkind, tuple) and d.vkind[0] == "set":
            if d.dom is None:
                return Coll("iter", None, None, items=[])
            ss = set_sort(d.vkind[1])
            S, k = fresh("S", ss), fresh("k", d.ksort)
            r = Coll("iter", ss, z3.Lambda([S], z3.Exists([k], z3.And(d.dom[k], S == d.val[k]))), nodup=False)
            r.values_of = d
            return r
        if name == "get" and d.vkind == "scalar":
            raise Unsupported("dict.get")
        raise Unsupported(f"dict method {name}")

    # ------------------------------------------------------------------ top level
    def verify(self, contract: Contract):
        """Generate all obligations of one function against its contract."""
        self.contract = contract
        fdef, sha, span = self.src.find(contract.file, contract.qual)
        info = {"file": contract.file, "qualname": contract.qual, "lines": list(span), "body_sha": sha, "variants": []}
        for label, args, extra in contract.variants(self):
            # every variant is an independent verification task: fresh background theory
            self.axioms = []
            self.lib = type(self.lib)()
            self.__dict__.pop("_opaque_decls", None)
            self.__dict__.pop("_order_added", None)
            self.__dict__.pop("_reach_theories", None)
            self.prefix = f"{contract.qual}[{label}]"
            self.dynamic_nodes = bool(extra.get("dynamic_nodes")) if extra else False
            self.__dict__.pop("_dn_ax", None)
            self.ob_counter = {}
            self.loop_counter = 0
            self.number_loops(fdef)
            self.npaths = 0
            st = State()
            self.cargs = args
            st.args = args
            pre = contract.pre(self, st, args)
            st.assume(pre, "requires")
            # vacuity guards: requires satisfiable; `ensures False` must be refuted
            cover = Obligation(f"{self.prefix}/pre.cover", self.axioms + st.pc, z3.BoolVal(False), kind="cover")
            self.obligations.append(cover)
            self.cold = contract.snapshot(self, st, args)
            st.env = Env(extra.get("env", {}) if extra else {})
            base = locals_baseline().get(contract.qual)
            aliases = local_aliases(base, local_order(fdef)) if base else {}
            if aliases:
                # renamed locals: the contract's names are re-mapped by position.  A proof found this way is a proof (invariants are
                # obligations, never assumptions); a refutation is not trusted (run.py reports it as undecided)
                st.env.aliases = aliases
                st.env.hits = self._alias_hits = getattr(self, "_alias_hits", set())
            self.bind_params(fdef.args, extra.get("positional", []) if extra else [], args, st.env, st)
            exc = contract.raises(self, st, args)
            any_exc = z3.Or(*exc.values()) if exc else z3.BoolVal(False)
            outs = self.exec_block(self.strip_doc(fdef.body), st)
            n_ret = 0
            for pi, (s, o) in enumerate(outs):
                if isinstance(s.env, Env) and not getattr(contract, "post_reads_locals", False):
                    # re-mapped names serve loop invariants only; post / raises clauses do not read through them, unless the contract
                    # opts in (its postcondition must then pin the local it reads to a specification term)
                    s.env.aliases = {}
                # vacuity guard per terminal path: the path condition (requires + callee postconditions + library facts + lemma
                # instances assumed on the way) must not be contradictory, or everything below it would be proved from False
                if os.environ.get("PYVC_PATH_COVERS"):   # dev aid: lists contradictory terminal paths (infeasible paths show up too)
                    self.obligations.append(Obligation(f"{self.prefix}/path.cover#{pi}", self.axioms + s.pc, z3.BoolVal(False), kind="cover"))
                if o.kind in ("return", "normal"):
                    res = o.value if o.kind == "return" else NONE
                    if self.is_generator(fdef):
                        res = s.env.get("__yield__", Coll("list", None, None, items=[]))
                    n_ret += 1
                    if exc:
                        self.oblige(s, z3.Not(any_exc), "no-spurious-return")
                    pf = contract.post(self, s, s.args, self.cold, res)
                    if isinstance(pf, dict):
                        for pname, pform in pf.items():
                            if pname.startswith("def."):
                                # definition of a ghost function symbol naming this function's result (used by callers to speak about
                                # the result for *all* arguments): nothing to prove here - it is conservative because another clause
                                # of the same postcondition pins the result to a formula over the same arguments
                                continue
                            ob = self.oblige(s, pform, f"post.{pname}")
                            if ob is not None and pname.startswith("lemma."):
                                ob.hyps = []  # a lemma about the specification itself: proved from nothing
                    else:
                        self.oblige(s, pf, "post")
                elif o.kind == "raise":
                    cond = exc.get(o.exc)
                    self.oblige(s, cond if cond is not None else z3.BoolVal(False), f"raises.{o.exc}")
                    fr = contract.on_raise(self, s, s.args, self.cold, o.exc)
                    if fr is not None:
                        self.oblige(s, fr, f"raises.{o.exc}.state-unchanged")
                else:
                    raise Unsupported(f"function ends with {o.kind}")
            info["variants"].append({"label": label, "paths": len(outs), "returns": n_ret})
            if aliases and self._alias_hits:
                info["locals_remapped"] = {k: aliases[k] for k in sorted(self._alias_hits) if k in aliases}
        return info


def discharge_all(obligations, timeout_ms=None):
    for ob in obligations:
        if ob.kind == "cover":
            # must be *refuted* (the precondition is satisfiable)
            v, m, secs, be = solve(ob.hyps, ob.goal, 5000, want_model=False)
            ob.secs, ob.backend = secs, be
            ob.verdict = "discharged" if v == "refuted" else ("vacuous" if v == "discharged" else "unknown")
            continue
        v, m, secs, be = solve(ob.hyps, ob.goal, timeout_ms)
        ob.verdict, ob.model, ob.secs, ob.backend = v, m, secs, be
    return obligations
