"""CLI:  ./check <Cxx> [--tier quick|thorough] [--replay FILE] | --setup | --worker ... (internal)

exit 0 held / 1 violation / 2 undecided only / 3 checker fault      (DESIGN.md §4)
"""
from __future__ import annotations

import argparse
import importlib
import json
import os
import sys
import time

from vf import core


def main():
    ap = argparse.ArgumentParser()
    ap.add_argument("prop", nargs="?")
    ap.add_argument("--tier", default=os.environ.get("VERIF_TIER", "quick"))
    ap.add_argument("--seed", type=int, default=int(os.environ.get("VERIF_SEED", "0") or 0))
    ap.add_argument("--replay")
    ap.add_argument("--setup", action="store_true")
    ap.add_argument("--worker")
    ap.add_argument("--shard", type=int, default=0)
    ap.add_argument("--of", type=int, default=1)
    ap.add_argument("--group")
    ap.add_argument("--no-e1", action="store_true")
    ap.add_argument("--no-bounded", action="store_true")
    ap.add_argument("--nproc", type=int, default=None)
    a = ap.parse_args()
    if a.tier not in ("quick", "thorough"):
        a.tier = "quick"

    if a.worker:
        core.worker_main(a.worker, a.tier, a.seed, a.shard, a.of, a.group)
        return 0
    sys.path.insert(0, str(core.REPO))
    if a.setup:
        from vf import selfcheck

        return selfcheck.setup()
    if not a.prop:
        ap.error("property id required")
    mod = importlib.import_module(f"vf.props.{a.prop}")
    if a.replay:
        return replay(mod, a)
    rep = core.Report(a.prop, a.tier, a.seed, level_of(a.prop, mod))
    rep.assumptions += list(getattr(mod, "ASSUMPTIONS", []))
    rep.trusted += list(getattr(mod, "TRUSTED", []))
    # runs against a scratch copy (VERIF_REPO != /repo: seeded changes, self-tests) never overwrite the registered evidence
    rep.partial = bool(a.no_e1 or a.no_bounded or a.group or str(core.REPO) != "/repo")
    if not a.no_e1:
        try:
            run_e1(rep, a.prop, mod, a.tier)
        except Exception:
            import traceback

            rep.faults.append({"what": "E1 crashed: " + traceback.format_exc()})
    if not a.no_bounded and mod.groups(a.tier):
        merged, faults = core.run_sharded(a.prop, a.tier, a.seed, nproc=a.nproc, only_group=a.group)
        rep.faults += faults
        for gname, st in merged.items():
            rep.bounded[gname] = st
            rep.faults += st["faults"]
            for f in st["failures"]:
                rep.add_violation(f["key"], f["what"], {"engine": st["engine"], "group": gname, "case": f["case"],
                                                        "detail": {k: v for k, v in f.items() if k not in ("case", "key", "what", "group")}})
    expl = getattr(mod, "EXPLANATION", "")
    try:   # the deductive part is described by the generated manifest text (one source for MANIFEST and evidence)
        meta = json.load(open(core.VERIF / "tools" / "manifest_meta.json")).get(a.prop, {})
        if rep.functions and meta.get("text"):
            expl = "E1 (contracts discharged function by function, see functions_under_contract / obligation_list): " + meta["text"] + "  ||  " + expl
    except Exception:
        pass
    rc = rep.finish(explanation=expl, extra_cov=getattr(mod, "EXTRA_COV", None))
    return rc


def level_of(prop, mod):
    try:
        meta = json.load(open(core.VERIF / "tools" / "manifest_meta.json"))
        return meta[prop]["category"]
    except Exception:
        return getattr(mod, "LEVEL", "exploration")


def run_e1(rep, prop, mod, tier):
    from vf.props.e1_targets import E1, E1_ASSUMPTIONS, E1_TRUSTED, FRAMES

    if hasattr(mod, "e1"):
        return mod.e1(rep, tier)
    if prop in FRAMES:
        from contracts import frames_factors

        n = frames_factors.run(rep, core.REPO, FRAMES[prop])
        if n == 0:
            rep.faults.append({"what": "frame analysis produced zero obligations"})
    if prop in E1:
        from contracts.common import CLASSES
        from vf.pyvc import run as e1run

        mods, quals = E1[prop]
        rep.trusted += E1_TRUSTED
        rep.assumptions += E1_ASSUMPTIONS
        e1run.verify_functions(rep, mods, quals, CLASSES)


def replay(mod, a):
    p = a.replay
    if not os.path.isabs(p):
        p = str(core.VERIF / p)
    payload = json.load(open(p))
    print(f"replaying {payload.get('key')} on {core.REPO}")
    if payload.get("group") and "case" in payload:
        for g in mod.groups("thorough") + mod.groups("quick"):
            if g.name == payload["group"]:
                f = core.run_case(g, payload["case"])
                if f is None:
                    print("replay: contract holds on this tree for the recorded input")
                    return 0
                print(f"VIOLATION property={a.prop} replay={a.replay} key={f['key']} :: {str(f['what'])[:600]}")
                return 1
        print("replay: unknown group", payload.get("group"))
        return 3
    if payload.get("obligation"):
        rep = core.Report(a.prop, a.tier, a.seed, level_of(a.prop, mod))
        run_e1(rep, a.prop, mod, a.tier)
        bad = [o for o in rep.obligations if o["name"] == payload["obligation"] and o["verdict"] != "discharged"]
        if bad:
            print(f"VIOLATION property={a.prop} replay={a.replay} obligation={payload['obligation']} verdict={bad[0]['verdict']}"
                  + (" no-failing-input-found" if payload.get("no_failing_input") else ""))
            print(payload.get("solver_output", "")[:3000])
            return 1
        print("replay: obligation discharged on this tree")
        return 0
    print("replay: nothing replayable in file")
    return 3


if __name__ == "__main__":
    sys.exit(main())
