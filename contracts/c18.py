"""Sidecar contracts for C18 (independence reasoning) - Independencies.py rules, assertion equality/hash,
DAG.get_immoralities / is_iequivalent.

Semi-graphoid rules (from the statement; X,Y,W,Z sets of variables):
  decomposition  X _|_ Y u W | Z            =>  X _|_ Y | Z
  weak union     X _|_ Y u W | Z            =>  X _|_ Y | Z u W
  contraction    X _|_ W | Z u Y  &  X _|_ Y | Z   =>  X _|_ W u Y | Z
Each nested rule function must only return instances of its rule (soundness of one application).
"""
import z3

from vf.pyvc.engine import Atom, B, Closure, Coll, Contract, NONE, Obj, Scalar, empty_set, fresh, register, set_sort, seteq, subset, union
from vf.pyvc.lib import IA, SetA, N_, PairAA, ia_fields, new_graph, nonempty, wf_graph, _le

from .common import atom, graph_snapshot, graph_unchanged

FILE = "pgmpy/independencies/Independencies.py"


def ia(name):
    return Scalar(z3.Const(name, IA), "IndependenceAssertion")


def ia_wf(z):
    e1, e2, e3 = ia_fields(z)
    return z3.And(nonempty(e1, Atom), nonempty(e2, Atom))


def eqs(a, b):
    return seteq(a, b, Atom)


class _Rule(Contract):
    file = FILE

    def helper_env(self, ex):
        fdef, _, _ = ex.src.find(FILE, "Independencies.closure.<locals>.single_var")
        return {"single_var": Closure(fdef, {}, "single_var")}

    def result_members(self, result):
        if not isinstance(result, Coll):
            return None
        return result.mem


class SG1(_Rule):
    pure = True   # does not modify any pre-existing object
    qual = "Independencies.closure.<locals>.sg1"

    def variants(self, ex):
        yield "any", {"ind": ia("ind")}, {"env": self.helper_env(ex)}

    def pre(self, ex, st, args):
        return ia_wf(args["ind"].z)

    def post(self, ex, st, args, old, result):
        if not isinstance(result, Coll):
            return z3.BoolVal(False)
        if result.mem is None:
            return z3.BoolVal(True)
        e1, e2, e3 = ia_fields(args["ind"].z)
        r = fresh("r", IA)
        r1, r2, r3 = ia_fields(r)
        return z3.ForAll([r], z3.Implies(result.mem[r], z3.And(eqs(r1, e1), eqs(r3, e3), subset(r2, e2, Atom), nonempty(r2, Atom))))


class SG2(_Rule):
    pure = True   # does not modify any pre-existing object
    qual = "Independencies.closure.<locals>.sg2"

    def variants(self, ex):
        yield "any", {"ind": ia("ind")}, {"env": self.helper_env(ex)}

    def pre(self, ex, st, args):
        return ia_wf(args["ind"].z)

    def post(self, ex, st, args, old, result):
        if not isinstance(result, Coll):
            return z3.BoolVal(False)
        if result.mem is None:
            return z3.BoolVal(True)
        e1, e2, e3 = ia_fields(args["ind"].z)
        r = fresh("r", IA)
        r1, r2, r3 = ia_fields(r)
        x = fresh("x", Atom)
        # r = (X _|_ Y | Z u W) with Y u W = e2, Y, W disjoint, Y non-empty
        return z3.ForAll([r], z3.Implies(result.mem[r], z3.And(
            eqs(r1, e1), subset(r2, e2, Atom), nonempty(r2, Atom),
            z3.ForAll([x], r3[x] == z3.Or(e3[x], z3.And(e2[x], z3.Not(r2[x])))))))


class SG3(_Rule):
    pure = True   # does not modify any pre-existing object
    qual = "Independencies.closure.<locals>.sg3"

    def variants(self, ex):
        yield "any", {"ind1": ia("ind1"), "ind2": ia("ind2")}, {"env": self.helper_env(ex)}

    def pre(self, ex, st, args):
        return z3.And(ia_wf(args["ind1"].z), ia_wf(args["ind2"].z))

    def post(self, ex, st, args, old, result):
        if not isinstance(result, Coll):
            return z3.BoolVal(False)
        if result.mem is None:
            return z3.BoolVal(True)
        X1, W, YZ = ia_fields(args["ind1"].z)
        X2, Y, Z = ia_fields(args["ind2"].z)
        r = fresh("r", IA)
        r1, r2, r3 = ia_fields(r)
        x = fresh("x", Atom)
        shape = z3.And(eqs(X1, X2), eqs(r1, X1), z3.ForAll([x], r2[x] == z3.Or(W[x], Y[x])), eqs(r3, Z))
        exact = z3.ForAll([x], YZ[x] == z3.Or(Y[x], Z[x]))  # ind1 is conditioned on exactly Y u Z
        # "as-is": characterisation of the present (too permissive) guard, so that any *other* change of the
        # rule is still reported while the known finding F02 is listed (see known_findings.json)
        asis = z3.And(subset(Y, YZ, Atom), subset(Z, YZ, Atom), z3.ForAll([x], z3.Not(z3.And(Y[x], Z[x]))))
        return {
            "contraction-sound": z3.ForAll([r], z3.Implies(result.mem[r], z3.And(shape, exact))),
            "as-is-shape": z3.ForAll([r], z3.Implies(result.mem[r], z3.And(shape, asis))),
        }


register(SG1())
register(SG2())
register(SG3())


class IAEq(Contract):
    pure = True   # does not modify any pre-existing object
    file = FILE
    qual = "IndependenceAssertion.__eq__"

    def variants(self, ex):
        yield "other=assertion", {"self": ia("a"), "other": ia("b")}, {}
        yield "other=foreign", {"self": ia("a"), "other": atom("b", "str")}, {}

    def post(self, ex, st, args, old, result):
        if not isinstance(result, Scalar) or result.z.sort() != B:
            return z3.BoolVal(False)
        if args["other"].z.sort() != IA:
            return result.z == z3.BoolVal(False)
        a1, a2, a3 = ia_fields(args["self"].z)
        b1, b2, b3 = ia_fields(args["other"].z)
        spec = z3.Or(z3.And(eqs(a1, b1), eqs(a2, b2), eqs(a3, b3)), z3.And(eqs(a1, b2), eqs(a2, b1), eqs(a3, b3)))
        return result.z == spec


class IAHash(Contract):
    pure = True   # does not modify any pre-existing object
    """2-safety: assertions equal up to symmetry hash equal (needed by set()/dict membership in closure)."""
    file = FILE
    qual = "IndependenceAssertion.__hash__"

    def variants(self, ex):
        yield "pair", {"self": ia("a")}, {}

    def post(self, ex, st, args, old, result):
        other = ia("b")
        fdef, _, _ = ex.src.find(FILE, self.qual)
        h2 = ex.inline(Closure(fdef, {}, "hash-of-other"), [other], {}, st)
        a1, a2, a3 = ia_fields(args["self"].z)
        b1, b2, b3 = ia_fields(other.z)
        same = z3.Or(z3.And(eqs(a1, b1), eqs(a2, b2), eqs(a3, b3)), z3.And(eqs(a1, b2), eqs(a2, b1), eqs(a3, b3)))
        return z3.Implies(same, result.z == h2.z)


register(IAEq())
register(IAHash())


# --------------------------------------------------------------------------------------------------- DAG side
def vstruct(E, a, b, c):
    """a -> c <- b with a, b non-adjacent."""
    return z3.And(E[a, c], E[b, c], a != b, z3.Not(E[a, b]), z3.Not(E[b, a]))


class GetImmoralities(Contract):
    pure = True   # does not modify any pre-existing object
    file = "pgmpy/base/DAG.py"
    qual = "DAG.get_immoralities"

    def variants(self, ex):
        yield "any", {"self": new_graph("DAG", "g")}, {}

    def pre(self, ex, st, args):
        return wf_graph(args["self"])

    def snapshot(self, ex, st, args):
        return graph_snapshot(args["self"])

    def expected(self, E, over):
        p = fresh("p", PairAA)
        c = fresh("c", Atom)
        lo, hi = PairAA.accessor(0, 0)(p), PairAA.accessor(0, 1)(p)
        return lambda pp: z3.And(_le(PairAA.accessor(0, 0)(pp), PairAA.accessor(0, 1)(pp)),
                                 z3.Exists([c], z3.And(over[c], vstruct(E, PairAA.accessor(0, 0)(pp), PairAA.accessor(0, 1)(pp), c))))

    def make_result(self, ex, st, args):
        return Coll("set", PairAA, fresh("imm", set_sort(PairAA)))

    def post(self, ex, st, args, old, result):
        ex.lib.ensure_order(ex)
        if not isinstance(result, Coll):
            return z3.BoolVal(False)
        mem = result.mem if result.mem is not None else empty_set(PairAA)
        p = fresh("p", PairAA)
        f = self.expected(old["@E"], old["@nodes"])
        return z3.And(z3.ForAll([p], mem[p] == f(p)), graph_unchanged(args["self"], old))

    def inv0(self, ex, st, args, old, ghost):
        imm = st.env["immoralities"]
        mem = imm.mem if imm.mem is not None else empty_set(PairAA)
        p = fresh("p", PairAA)
        f = self.expected(old["@E"], ghost["done"])
        return z3.And(z3.ForAll([p], mem[p] == f(p)), graph_unchanged(args["self"], old))

    invariants = property(lambda self: {0: self.inv0})


register(GetImmoralities())


def VS(E, F_, c_):
    """VS(F, c) <=> exists a,b. F = {a,b} and a -> c <- b is an unshielded collider."""
    a, b, x = fresh("a", Atom), fresh("b", Atom), fresh("x", Atom)
    return z3.Exists([a, b], z3.And(z3.ForAll([x], F_[x] == z3.Or(x == a, x == b)), vstruct(E, a, b, c_)))


def VSP(ex, E):
    """named version of VS for one edge relation: VSP_E(F, c) <=> VS(E, F, c) (definitional axiom)"""
    store = ex.__dict__.setdefault("_vsp", [])
    for E0, P in store:
        if E0.eq(E):
            return P
    P = z3.Function(f"VStruct!{len(store)}", SetA, Atom, B)
    F, c = fresh("F", SetA), fresh("c", Atom)
    ex.axioms.append(z3.ForAll([F, c], P(F, c) == VS(E, F, c), patterns=[P(F, c)]))
    store.append((E, P))
    return P



class VStructures(Contract):
    pure = True   # does not modify any pre-existing object
    """nested helper of is_iequivalent: the set of (frozenset({a,b}), c) for unshielded colliders a -> c <- b."""
    file = "pgmpy/base/DAG.py"
    qual = "DAG.is_iequivalent.<locals>.v_structures"

    def variants(self, ex):
        yield "any", {"dag": new_graph("DAG", "g")}, {}

    def pre(self, ex, st, args):
        return wf_graph(args["dag"])

    def snapshot(self, ex, st, args):
        return graph_snapshot(args["dag"])

    def make_result(self, ex, st, args):
        from vf.pyvc.engine import tuple_sort
        return Coll("set", tuple_sort([SetA, Atom]), fresh("vs", set_sort(tuple_sort([SetA, Atom]))))

    def post(self, ex, st, args, old, result):
        from vf.pyvc.engine import tuple_sort
        T = tuple_sort([SetA, Atom])
        if not isinstance(result, Coll):
            return z3.BoolVal(False)
        mem = result.mem if result.mem is not None else empty_set(T)
        y = fresh("y", T)
        P = VSP(ex, old["@E"])
        return z3.And(z3.ForAll([y], mem[y] == P(T.accessor(0, 0)(y), T.accessor(0, 1)(y))), graph_unchanged(args["dag"], old))


register(VStructures())


class IsIEquivalent(Contract):
    pure = True   # does not modify any pre-existing object
    """post taken from the statement: same skeleton and same v-structures (with their colliders)."""
    file = "pgmpy/base/DAG.py"
    qual = "DAG.is_iequivalent"

    def variants(self, ex):
        yield "any", {"self": new_graph("DAG", "g"), "model": new_graph("DAG", "h")}, {}

    def pre(self, ex, st, args):
        th = ex.lib.theory(ex)
        g, h = args["self"], args["model"]
        a = fresh("a", Atom)
        return z3.And(wf_graph(g), wf_graph(h), th.acyclic(g.fields["@E"]), th.acyclic(h.fields["@E"]))

    def post(self, ex, st, args, old, result):
        if not isinstance(result, Scalar):
            return z3.BoolVal(False)
        E1, E2 = args["self"].fields["@E"], args["model"].fields["@E"]
        a, b, c = fresh("a", Atom), fresh("b", Atom), fresh("c", Atom)
        same_skel = z3.ForAll([a, b], z3.Or(E1[a, b], E1[b, a]) == z3.Or(E2[a, b], E2[b, a]))
        same_v = z3.ForAll([a, b, c], vstruct(E1, a, b, c) == vstruct(E2, a, b, c))
        # The code compares *sets of (frozenset({a,b}), c)*.  VS_i(F, c) <=> exists a,b. F = {a,b} /\ a -> c <- b unshielded in G_i.
        F = fresh("F", SetA)
        x = fresh("x", Atom)
        pair = lambda F_, a_, b_: z3.ForAll([x], F_[x] == z3.Or(x == a_, x == b_))
        VS = lambda E, F_, c_: z3.Exists([a, b], z3.And(pair(F_, a, b), vstruct(E, a, b, c_)))
        from vf.pyvc.engine import tuple_sort
        T = tuple_sort([SetA, Atom])
        y = fresh("y", T)
        Fy, cy = T.accessor(0, 0)(y), T.accessor(0, 1)(y)
        P1, P2 = VSP(ex, E1), VSP(ex, E2)
        same_VS = z3.ForAll([y], P1(Fy, cy) == P2(Fy, cy))                      # named predicates (code obligation)
        same_VS_def = z3.ForAll([y], VS(E1, Fy, cy) == VS(E2, Fy, cy))          # unfolded definition (lemmas)
        # lemma (pure mathematics, no code involved): same_VS <=> same_v ; the (=>) direction needs the instance
        # y := ({a0,b0}, c0), supplied by hand (an instance of the hypothesis, hence sound)
        a0, b0, c0 = fresh("a0", Atom), fresh("b0", Atom), fresh("c0", Atom)
        Fab = z3.Store(z3.Store(empty_set(Atom), a0, True), b0, True)
        inst = VS(E1, Fab, c0) == VS(E2, Fab, c0)
        lemma_fwd = z3.Implies(inst, vstruct(E1, a0, b0, c0) == vstruct(E2, a0, b0, c0))
        lemma_bwd = z3.Implies(same_v, same_VS_def)
        return {"code-compares-skeleton-and-VS": result.z == z3.And(same_skel, same_VS),
                "lemma.VS-implies-v-structures": lemma_fwd,
                "lemma.v-structures-imply-VS": lemma_bwd}


register(IsIEquivalent())


# --------------------------------------------------------------------------------------------------- entailment tests
CL = z3.Function("closure_of", set_sort(IA), set_sort(IA))   # ghost: the assertion set closure() returns for a given assertion set


def _indep(name):
    return Obj("Independencies", {"independencies": Coll("list", IA, z3.Const(name, set_sort(IA)))})


def _members(o):
    l = o.fields["independencies"]
    return l.mem if l.mem is not None else empty_set(IA)


def listed(S, x):
    """x is found in the assertion collection S by `in` (equality up to swapping the two event sets)"""
    from vf.pyvc.lib import ia_eq
    e = fresh("e", IA)
    return z3.Exists([e], z3.And(S[e], ia_eq(e, x)))


class ClosureAssumed(Contract):
    pure = True   # does not modify any pre-existing object
    """ASSUMED contract of Independencies.closure() as a callee (never verified here: the rule functions sg1/sg2/sg3 are verified
    separately and sg3 is known to be unsound, K01): it returns a new Independencies object whose assertion set is a function CL
    of the receiver's assertion set and does not touch the receiver."""
    file = FILE
    qual = "Independencies.closure"

    def make_result(self, ex, st, args):
        ex.assumed.add("Independencies.closure() used through an assumed contract: fresh object, assertion set = CL(receiver's assertion set) "
                       "(deterministic), receiver untouched - what CL is, is decided by the sg1/sg2/sg3 contracts and the bounded closure group")
        return Obj("Independencies", {"independencies": Coll("list", IA, CL(_members(args["self"])))})

    def post(self, ex, st, args, old, result):
        return z3.BoolVal(True)


register(ClosureAssumed())


class Contains(Contract):
    pure = True   # does not modify any pre-existing object
    file = FILE
    qual = "Independencies.contains"

    def variants(self, ex):
        yield "assertion", {"self": _indep("A"), "assertion": ia("x")}, {}

    def post(self, ex, st, args, old, result):
        if not isinstance(result, Scalar):
            return z3.BoolVal(False)
        return result.z == listed(_members(args["self"]), args["assertion"].z)


class Entails(Contract):
    pure = True   # does not modify any pre-existing object
    """entails(other)  <=>  every assertion of `other` is found (up to symmetry) in self.closure()"""
    file = FILE
    qual = "Independencies.entails"

    def variants(self, ex):
        yield "independencies", {"self": _indep("A"), "entailed_independencies": _indep("Bs")}, {}
        yield "foreign", {"self": _indep("A"), "entailed_independencies": atom("b", "str")}, {}

    def make_result(self, ex, st, args):
        return Scalar(fresh("entails", B))

    def post(self, ex, st, args, old, result):
        if not isinstance(result, Scalar):
            return z3.BoolVal(False)
        o = args["entailed_independencies"]
        if not isinstance(o, Obj):
            return result.z == z3.BoolVal(False)
        x = fresh("x", IA)
        return result.z == z3.ForAll([x], z3.Implies(_members(o)[x], listed(CL(_members(args["self"])), x)))


class IsEquivalent(Contract):
    pure = True   # does not modify any pre-existing object
    file = FILE
    qual = "Independencies.is_equivalent"

    def variants(self, ex):
        yield "independencies", {"self": _indep("A"), "other": _indep("Bs")}, {}

    def post(self, ex, st, args, old, result):
        if not isinstance(result, Scalar):
            return z3.BoolVal(False)
        x = fresh("x", IA)
        A, Bm = _members(args["self"]), _members(args["other"])
        return result.z == z3.And(z3.ForAll([x], z3.Implies(Bm[x], listed(CL(A), x))), z3.ForAll([x], z3.Implies(A[x], listed(CL(Bm), x))))


for _c in (Contains(), Entails(), IsEquivalent()):
    register(_c)
