"""Sidecar contracts for C14 (conversions): BayesianNetwork.to_markov_model structure.

to_markov_model: the Markov network has the nodes of the Bayesian network and exactly the edges of its moral graph
(modular: uses the proved contract of DAG.moralize).  Factors (cpd.to_factor()) are opaque here; that their product is
the joint is decided by the bounded groups of C14.
"""
import z3

from vf.pyvc.engine import Atom, B, Opaque, Coll, Contract, NONE, Obj, OpaqueFn, Scalar, empty_set, fresh, register, set_sort
from vf.pyvc.lib import N_, new_graph, wf_graph

from .common import graph_snapshot, graph_unchanged
from . import c08  # DAG.moralize contract


class ToMarkovModel(Contract):
    file = "pgmpy/models/BayesianNetwork.py"
    qual = "BayesianNetwork.to_markov_model"

    def variants(self, ex):
        g = new_graph("BayesianNetwork", "m")
        g.fields["cpds"] = Coll("list", Opaque, z3.Const("cpds", set_sort(Opaque)), nodup=True)
        yield "any", {"self": g}, {}

    def pre(self, ex, st, args):
        g = args["self"]
        a = fresh("a", Atom)
        return z3.And(wf_graph(g), z3.ForAll([a], z3.Not(g.fields["_E"][a, a])))

    def snapshot(self, ex, st, args):
        return graph_snapshot(args["self"])

    def post(self, ex, st, args, old, result):
        if not isinstance(result, Obj) or result.fields.get("_directed", True):
            return z3.BoolVal(False)
        E = old["_E"]
        a, b, c = fresh("a", Atom), fresh("b", Atom), fresh("c", Atom)
        moral = lambda x, y: z3.Or(E[x, y], E[y, x], z3.And(x != y, z3.Exists([c], z3.And(E[x, c], E[y, c]))))
        return {"nodes": z3.ForAll([a], result.fields["_nodes"][a] == old["_nodes"][a]),
                "edges-are-the-moral-graph": z3.ForAll([a, b], result.fields["_E"][a, b] == moral(a, b)),
                "frame": z3.And(graph_unchanged(args["self"], old), z3.BoolVal(result is not args["self"]))}


register(ToMarkovModel())
