"""Sidecar contracts for C14 (conversions): BayesianNetwork.to_markov_model structure.

to_markov_model: the Markov network has the nodes of the Bayesian network and exactly the edges of its moral graph
(modular: uses the proved contract of DAG.moralize).  Factors (cpd.to_factor()) are opaque here; that their product is
the joint is decided by the bounded groups of C14.
"""
import z3

from vf.pyvc.engine import Atom, B, Opaque, Coll, Contract, NONE, Obj, OpaqueFn, Scalar, empty_set, fresh, register, set_sort
from vf.pyvc.lib import N_, new_graph, wf_graph

from .common import graph_snapshot, graph_unchanged
from . import c08  # DAG.moralize contract


class ToMarkovModel(Contract):
    pure = True   # does not modify any pre-existing object
    file = "pgmpy/models/BayesianNetwork.py"
    qual = "BayesianNetwork.to_markov_model"

    def variants(self, ex):
        g = new_graph("BayesianNetwork", "m")
        g.fields["cpds"] = Coll("list", Opaque, z3.Const("cpds", set_sort(Opaque)), nodup=True)
        yield "any", {"self": g}, {}

    def pre(self, ex, st, args):
        g = args["self"]
        a = fresh("a", Atom)
        return z3.And(wf_graph(g), z3.ForAll([a], z3.Not(g.fields["@E"][a, a])))

    def snapshot(self, ex, st, args):
        return graph_snapshot(args["self"])

    def post(self, ex, st, args, old, result):
        if not isinstance(result, Obj) or result.fields.get("@directed", True):
            return z3.BoolVal(False)
        E = old["@E"]
        a, b, c = fresh("a", Atom), fresh("b", Atom), fresh("c", Atom)
        moral = lambda x, y: z3.Or(E[x, y], E[y, x], z3.And(x != y, z3.Exists([c], z3.And(E[x, c], E[y, c]))))
        return {"nodes": z3.ForAll([a], result.fields["@nodes"][a] == old["@nodes"][a]),
                "edges-are-the-moral-graph": z3.ForAll([a, b], result.fields["@E"][a, b] == moral(a, b)),
                "frame": z3.And(graph_unchanged(args["self"], old), z3.BoolVal(result is not args["self"]))}


register(ToMarkovModel())


class IsClique(Contract):
    pure = True   # does not modify any pre-existing object
    file = "pgmpy/base/UndirectedGraph.py"
    qual = "UndirectedGraph.is_clique"

    def variants(self, ex):
        from .common import atom_list
        g = new_graph("UndirectedGraph", "ug", directed=False, latents=False)
        yield "nodes=set", {"self": g, "nodes": atom_list("S", "set")}, {}

    def pre(self, ex, st, args):
        return wf_graph(args["self"])

    def snapshot(self, ex, st, args):
        return graph_snapshot(args["self"])

    def post(self, ex, st, args, old, result):
        from vf.pyvc.engine import Scalar
        if not isinstance(result, Scalar):
            return z3.BoolVal(False)
        S, E = args["nodes"].mem, old["@E"]
        a, b = fresh("a", Atom), fresh("b", Atom)
        return z3.And(result.z == z3.ForAll([a, b], z3.Implies(z3.And(S[a], S[b], a != b), E[a, b])), graph_unchanged(args["self"], old))

    def inv0(self, ex, st, args, old, ghost):
        from vf.pyvc.lib import PairAA
        done = ghost["done"]
        a, b = fresh("a", Atom), fresh("b", Atom)
        E = old["@E"]
        return z3.And(z3.ForAll([a, b], z3.Implies(done[PairAA.mk(a, b)], E[a, b])), graph_unchanged(args["self"], old))

    invariants = property(lambda self: {0: self.inv0})


register(IsClique())
