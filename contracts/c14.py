"""Sidecar contracts for C14 (conversions): BayesianNetwork.to_markov_model structure.

to_markov_model: the Markov network has the nodes of the Bayesian network and exactly the edges of its moral graph
(modular: uses the proved contract of DAG.moralize).  Factors (cpd.to_factor()) are opaque here; that their product is
the joint is decided by the bounded groups of C14.
"""
import z3

from vf.pyvc.engine import Atom, B, Opaque, Coll, Contract, NONE, Obj, OpaqueFn, Scalar, empty_set, fresh, register, set_sort
from vf.pyvc.lib import N_, new_graph, wf_graph

from .common import graph_snapshot, graph_unchanged
from . import c08  # DAG.moralize contract


class ToMarkovModel(Contract):
    pure = True   # does not modify any pre-existing object
    file = "pgmpy/models/BayesianNetwork.py"
    qual = "BayesianNetwork.to_markov_model"

    def variants(self, ex):
        g = new_graph("BayesianNetwork", "m")
        g.fields["cpds"] = Coll("list", Opaque, z3.Const("cpds", set_sort(Opaque)), nodup=True)
        yield "any", {"self": g}, {}

    def pre(self, ex, st, args):
        g = args["self"]
        a = fresh("a", Atom)
        return z3.And(wf_graph(g), z3.ForAll([a], z3.Not(g.fields["@E"][a, a])))

    def snapshot(self, ex, st, args):
        return graph_snapshot(args["self"])

    def post(self, ex, st, args, old, result):
        if not isinstance(result, Obj) or result.fields.get("@directed", True):
            return z3.BoolVal(False)
        E = old["@E"]
        a, b, c = fresh("a", Atom), fresh("b", Atom), fresh("c", Atom)
        moral = lambda x, y: z3.Or(E[x, y], E[y, x], z3.And(x != y, z3.Exists([c], z3.And(E[x, c], E[y, c]))))
        return {"nodes": z3.ForAll([a], result.fields["@nodes"][a] == old["@nodes"][a]),
                "edges-are-the-moral-graph": z3.ForAll([a, b], result.fields["@E"][a, b] == moral(a, b)),
                "frame": z3.And(graph_unchanged(args["self"], old), z3.BoolVal(result is not args["self"]))}


register(ToMarkovModel())


class IsClique(Contract):
    pure = True   # does not modify any pre-existing object
    file = "pgmpy/base/UndirectedGraph.py"
    qual = "UndirectedGraph.is_clique"

    def variants(self, ex):
        from .common import atom_list
        g = new_graph("UndirectedGraph", "ug", directed=False, latents=False)
        yield "nodes=set", {"self": g, "nodes": atom_list("S", "set")}, {}

    def pre(self, ex, st, args):
        return wf_graph(args["self"])

    def snapshot(self, ex, st, args):
        return graph_snapshot(args["self"])

    def post(self, ex, st, args, old, result):
        from vf.pyvc.engine import Scalar
        if not isinstance(result, Scalar):
            return z3.BoolVal(False)
        S, E = args["nodes"].mem, old["@E"]
        a, b = fresh("a", Atom), fresh("b", Atom)
        return z3.And(result.z == z3.ForAll([a, b], z3.Implies(z3.And(S[a], S[b], a != b), E[a, b])), graph_unchanged(args["self"], old))

    def inv0(self, ex, st, args, old, ghost):
        from vf.pyvc.lib import PairAA
        done = ghost["done"]
        a, b = fresh("a", Atom), fresh("b", Atom)
        E = old["@E"]
        return z3.And(z3.ForAll([a, b], z3.Implies(done[PairAA.mk(a, b)], E[a, b])), graph_unchanged(args["self"], old))

    invariants = property(lambda self: {0: self.inv0})


register(IsClique())


class FGToMarkovModel(Contract):
    """FactorGraph.to_markov_model (structure): the Markov network has the variables of the factor scopes as nodes and an edge between
    two different variables exactly when some factor has both in its scope; ValueError exactly when the number of non-variable
    nodes differs from the number of factors.  The factor graph is not modified.  (Factor objects are opaque; their scope() is a
    duplicate-free list of names; check_model() of the factor graph is an assumed pure callee; that every factor is handed over
    exactly once is decided by the bounded groups.)"""
    pure = True
    file = "pgmpy/models/FactorGraph.py"
    qual = "FactorGraph.to_markov_model"

    scope = z3.Function("opaque_scope", Opaque, set_sort(Atom))

    def variants(self, ex):
        from vf.pyvc.engine import OpaqueFn
        g = new_graph("FactorGraph", "fg", directed=False, latents=False)
        L = Coll("list", Opaque, z3.Const("factors", set_sort(Opaque)))
        L.len_z = z3.Int("n_factors")
        g.fields["factors"] = L
        g.fields["__opaque__"] = {"check_model": OpaqueFn("fg_check_model", B, pure=True)}
        yield "any", {"self": g}, {}

    def pre(self, ex, st, args):
        from vf.pyvc.engine import nonempty
        g = args["self"]
        L = g.fields["factors"]
        return z3.And(wf_graph(g), L.len_z >= 0, (L.len_z == 0) == z3.Not(nonempty(L.mem, Opaque)))

    def snapshot(self, ex, st, args):
        return graph_snapshot(args["self"])

    def varnodes(self, args):
        x, f = fresh("x", Atom), fresh("f", Opaque)
        F = args["self"].fields["factors"].mem
        return z3.Lambda([x], z3.Exists([f], z3.And(F[f], self.scope(f)[x])))

    def raises(self, ex, st, args):
        g = args["self"]
        x = fresh("x", Atom)
        V = self.varnodes(args)
        others = z3.Lambda([x], z3.And(N_(g, x), z3.Not(V[x])))
        return {"ValueError": ex.lib.card(ex, Coll("set", Atom, others), st) != g.fields["factors"].len_z}

    def on_raise(self, ex, st, args, old, exc):
        return graph_unchanged(args["self"], old)

    def post(self, ex, st, args, old, result):
        if not isinstance(result, Obj) or result.fields.get("@directed", True):
            return z3.BoolVal(False)
        F = args["self"].fields["factors"].mem
        V = self.varnodes(args)
        a, b, f = fresh("a", Atom), fresh("b", Atom), fresh("f", Opaque)
        return {"nodes-are-the-scope-variables": z3.ForAll([a], result.fields["@nodes"][a] == V[a]),
                "edges-join-co-scoped-variables": z3.ForAll([a, b], result.fields["@E"][a, b] ==
                                                            z3.And(a != b, z3.Exists([f], z3.And(F[f], self.scope(f)[a], self.scope(f)[b])))),
                "frame": z3.And(graph_unchanged(args["self"], old), z3.BoolVal(result is not args["self"]))}

    # loop 0: for factor in self.factors
    def inv0(self, ex, st, args, old, ghost):
        mm = st.env["mm"]
        done = ghost["done"]
        V = self.varnodes(args)
        a, b, f = fresh("a", Atom), fresh("b", Atom), fresh("f", Opaque)
        return z3.And(graph_unchanged(args["self"], old),
                      z3.ForAll([a], mm.fields["@nodes"][a] == V[a]),
                      z3.ForAll([a, b], mm.fields["@E"][a, b] == z3.And(a != b, z3.Exists([f], z3.And(done[f], self.scope(f)[a], self.scope(f)[b])))))

    invariants = property(lambda self: {0: self.inv0})


register(FGToMarkovModel())
