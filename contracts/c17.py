"""Sidecar contracts for C17 (dynamic networks): structural helpers of DynamicBayesianNetwork.

Nodes are DynamicNode(name, time_slice); the helpers the inference code relies on are set comprehensions over the edge
relation of the two-slice template.  That the forward/backward passes built on them equal inference on the unrolled
network is the interface-algorithm theorem and is decided by the bounded groups only.
"""
import z3

from vf.pyvc.engine import Atom, B, I, Coll, Contract, NONE, Obj, Scalar, empty_set, fresh, register, set_sort, tuple_sort
from vf.pyvc.lib import DN, N_, dn_name, dn_slice, ensure_dn, is_dn, new_graph, wf_graph

from .common import graph_snapshot, graph_unchanged

PairAA = tuple_sort([Atom, Atom])


def dbn():
    return new_graph("DynamicBayesianNetwork", "dbn")


def wf_dbn(ex, g):
    ensure_dn(ex)
    n = fresh("n", Atom)
    return z3.And(wf_graph(g), z3.ForAll([n], z3.Implies(N_(g, n), is_dn(n))))


class _Helper(Contract):
    file = "pgmpy/models/DynamicBayesianNetwork.py"

    def snapshot(self, ex, st, args):
        return graph_snapshot(args["self"])

    def pre(self, ex, st, args):
        return wf_dbn(ex, args["self"])


class GetInterEdges(_Helper):
    pure = True   # does not modify any pre-existing object
    qual = "DynamicBayesianNetwork.get_inter_edges"

    def variants(self, ex):
        yield "any", {"self": dbn()}, {"dynamic_nodes": True}

    def make_result(self, ex, st, args):
        return Coll("list", PairAA, fresh("inter", set_sort(PairAA)), nodup=True)

    def post(self, ex, st, args, old, result):
        if not isinstance(result, Coll):
            return z3.BoolVal(False)
        ensure_dn(ex)
        mem = result.mem if result.mem is not None else empty_set(PairAA)
        u, v = fresh("u", Atom), fresh("v", Atom)
        return z3.And(z3.ForAll([u, v], mem[PairAA.mk(u, v)] == z3.And(old["@E"][u, v], dn_slice(u) != dn_slice(v))),
                      graph_unchanged(args["self"], old))


class GetIntraEdges(_Helper):
    pure = True   # does not modify any pre-existing object
    qual = "DynamicBayesianNetwork.get_intra_edges"

    def variants(self, ex):
        yield "any", {"self": dbn(), "time_slice": Scalar(z3.Const("ts", I))}, {"dynamic_nodes": True}

    def raises(self, ex, st, args):
        return {"ValueError": args["time_slice"].z < 0}

    def on_raise(self, ex, st, args, old, exc):
        return graph_unchanged(args["self"], old)

    def post(self, ex, st, args, old, result):
        if not isinstance(result, Coll):
            return z3.BoolVal(False)
        ensure_dn(ex)
        ts = args["time_slice"].z
        mem = result.mem if result.mem is not None else empty_set(PairAA)
        p = fresh("p", PairAA)
        u, v = fresh("u", Atom), fresh("v", Atom)
        spec = z3.Exists([u, v], z3.And(old["@E"][u, v], dn_slice(u) == 0, dn_slice(v) == 0,
                                        PairAA.accessor(0, 0)(p) == DN(dn_name(u), ts), PairAA.accessor(0, 1)(p) == DN(dn_name(v), ts)))
        return z3.And(z3.ForAll([p], mem[p] == spec), graph_unchanged(args["self"], old))


class GetSliceNodes(_Helper):
    pure = True   # does not modify any pre-existing object
    qual = "DynamicBayesianNetwork.get_slice_nodes"

    def variants(self, ex):
        yield "any", {"self": dbn(), "time_slice": Scalar(z3.Const("ts", I))}, {"dynamic_nodes": True}

    def raises(self, ex, st, args):
        return {"ValueError": args["time_slice"].z < 0}

    def post(self, ex, st, args, old, result):
        if not isinstance(result, Coll):
            return z3.BoolVal(False)
        ensure_dn(ex)
        ts = args["time_slice"].z
        mem = result.mem if result.mem is not None else empty_set(Atom)
        x, n = fresh("x", Atom), fresh("n", Atom)
        return z3.And(z3.ForAll([x], mem[x] == z3.Exists([n], z3.And(old["@nodes"][n], x == DN(dn_name(n), ts)))),
                      graph_unchanged(args["self"], old))


class GetInterfaceNodes(_Helper):
    pure = True   # does not modify any pre-existing object
    qual = "DynamicBayesianNetwork.get_interface_nodes"

    def variants(self, ex):
        for t in (0, 1):
            yield f"time_slice={t}", {"self": dbn(), "time_slice": Scalar(z3.IntVal(t))}, {"dynamic_nodes": True}

    def post(self, ex, st, args, old, result):
        if not isinstance(result, Coll):
            return z3.BoolVal(False)
        ensure_dn(ex)
        t = z3.simplify(args["time_slice"].z).as_long()
        mem = result.mem if result.mem is not None else empty_set(Atom)
        x, u, v = fresh("x", Atom), fresh("u", Atom), fresh("v", Atom)
        end = u if t == 0 else v
        return z3.And(z3.ForAll([x], mem[x] == z3.Exists([u, v], z3.And(old["@E"][u, v], dn_slice(u) != dn_slice(v), x == end))),
                      graph_unchanged(args["self"], old))


for _c in (GetInterEdges(), GetIntraEdges(), GetSliceNodes(), GetInterfaceNodes()):
    register(_c)
