"""Sidecar contracts for C09 (file round trips): the only part of the readers that is set/dict code.

get_edges of the BIF / XMLBIF / NET readers: the edge list is exactly {[parent, child] | parent in variable_parents[child]}
(so the graph read back has the parent sets that were parsed).  Everything textual (pyparsing, regex, ElementTree,
float formatting, table layout through numpy) is decided by the bounded round-trip groups only.
"""
import z3

from vf.pyvc.engine import Atom, B, Coll, Contract, DictV, NONE, Obj, Scalar, empty_set, fresh, register, set_sort, tuple_sort

PairAA = tuple_sort([Atom, Atom])


class _GetEdges(Contract):
    reader = None

    def variants(self, ex):
        vp = DictV(Atom, ("set", Atom), z3.Const("vp_dom", set_sort(Atom)), z3.Const("vp_val", z3.ArraySort(Atom, set_sort(Atom))))
        yield "any", {"self": Obj(self.reader, {"variable_parents": vp})}, {}

    def post(self, ex, st, args, old, result):
        if not isinstance(result, Coll):
            return z3.BoolVal(False)
        vp = args["self"].fields["variable_parents"]
        mem = result.mem if result.mem is not None else empty_set(PairAA)
        p, c = fresh("p", Atom), fresh("c", Atom)
        return z3.ForAll([p, c], mem[PairAA.mk(p, c)] == z3.And(vp.dom[c], vp.val[c][p]))


class XMLBIFGetEdges(_GetEdges):
    file, qual, reader = "pgmpy/readwrite/XMLBIF.py", "XMLBIFReader.get_edges", "XMLBIFReader"


class BIFGetEdges(_GetEdges):
    file, qual, reader = "pgmpy/readwrite/BIF.py", "BIFReader.get_edges", "BIFReader"


class NETGetEdges(_GetEdges):
    file, qual, reader = "pgmpy/readwrite/NET.py", "NETReader.get_edges", "NETReader"


for _c in (XMLBIFGetEdges(), BIFGetEdges(), NETGetEdges()):
    register(_c)
