"""Sidecar contracts for C08 (d-separation) - pgmpy/base/DAG.py.

Spec (taken from the property statement, in local form):
  Anc(a)        <=> exists z in Z . Path_E(a, z)                      (descendant-or-self of a is observed)
  Reach(s;n,d)  least relation with
      Reach(s; s, up)
      Reach(s; n, up)   /\\ n notin Z /\\ E(m,n)  => Reach(s; m, up)      (continue upwards through a non-collider)
      Reach(s; n, up)   /\\ n notin Z /\\ E(n,m)  => Reach(s; m, down)    (turn down at a common cause / start)
      Reach(s; n, down) /\\ n notin Z /\\ E(n,m)  => Reach(s; m, down)    (chain)
      Reach(s; n, down) /\\ Anc(n)    /\\ E(m,n)  => Reach(s; m, up)      (collider with observed descendant-or-self)
  dconn(s, n | Z) <=> n notin Z /\\ (Reach(s;n,up) \\/ Reach(s;n,down))
Lemma L4 (trusted, validated exhaustively on all DAGs <= 4/5 nodes by the bounded groups of C08):
  dconn coincides with "there is an active trail" of the path-based definition.
"""
import z3

from vf.pyvc.engine import Atom, B, Coll, Contract, DictV, NONE, NoneV, Obj, Scalar, empty_set, fresh, register, set_sort, \
    seteq, str_const, subset, tuple_sort, z3_of
from vf.pyvc.lib import E_, N_, new_graph, wf_graph

from .common import atom, atom_list, graph_snapshot, graph_unchanged, mem_or_empty

PairAD = tuple_sort([Atom, Atom])  # (node, direction)
UP, DOWN = str_const("up"), str_const("down")


def anc_spec(ex, E, Z):
    """Anc(a) <=> exists z in Z. Path(a,z) as a lambda array."""
    P = ex.lib.theory(ex).path(E)
    a, z = fresh("a", Atom), fresh("z", Atom)
    return z3.Lambda([a], z3.Exists([z], z3.And(Z[z], P(a, z))))


# ---------------------------------------------------------------------------------------------------
class GetAncestorsOf(Contract):
    pure = True   # does not modify any pre-existing object
    file = "pgmpy/base/DAG.py"
    qual = "DAG._get_ancestors_of"

    def variants(self, ex):
        g = new_graph("DAG", "g")
        yield "nodes=list", {"self": g, "nodes": atom_list("Zl", "list")}, {}
        g = new_graph("DAG", "g")
        yield "nodes=tuple", {"self": g, "nodes": atom_list("Zt", "tuple")}, {}
        g = new_graph("DAG", "g")
        n = atom("z0", "str")
        yield "nodes=single", {"self": g, "nodes": n}, {}

    @staticmethod
    def Z(args):
        n = args["nodes"]
        if isinstance(n, Scalar):
            return z3.Store(empty_set(Atom), n.z, True)
        return mem_or_empty(n)

    def pre(self, ex, st, args):
        return wf_graph(args["self"])

    def raises(self, ex, st, args):
        x = fresh("x", Atom)
        return {"ValueError": z3.Exists([x], z3.And(self.Z(args)[x], z3.Not(N_(args["self"], x))))}

    def snapshot(self, ex, st, args):
        return graph_snapshot(args["self"])

    def make_result(self, ex, st, args):
        return Coll("set", Atom, fresh("anc", set_sort(Atom)))

    def post(self, ex, st, args, old, result):
        g = args["self"]
        if not isinstance(result, Coll):
            return z3.BoolVal(False)
        A = anc_spec(ex, old["@E"], self.Z(args))
        # ghost lemma: leastness instance for the returned set (valid for the least fix-point)
        st.assume(ex.lib.theory(ex).induct_backward(old["@E"], mem_or_empty(result)))
        a = fresh("a", Atom)
        return z3.And(z3.ForAll([a], mem_or_empty(result)[a] == A[a]), graph_unchanged(g, old))

    # loop 0: `for node in nodes: if node not in self.nodes(): raise`
    def inv0(self, ex, st, args, old, ghost):
        x = fresh("x", Atom)
        return z3.ForAll([x], z3.Implies(ghost["done"][x], N_(args["self"], x)))

    # loop 1: worklist
    def inv1(self, ex, st, args, old, ghost):
        g = args["self"]
        E = g.fields["@E"]
        Z = self.Z(args)
        AL = mem_or_empty(st.env["ancestors_list"])
        NL = mem_or_empty(st.env["nodes_list"])
        A = anc_spec(ex, E, Z)
        x, a, b = fresh("x", Atom), fresh("a", Atom), fresh("b", Atom)
        return z3.And(
            z3.ForAll([x], z3.Implies(z3.Or(NL[x], AL[x]), z3.And(A[x], N_(g, x)))),
            z3.ForAll([x], z3.Implies(Z[x], z3.Or(NL[x], AL[x]))),
            z3.ForAll([a, b], z3.Implies(z3.And(AL[b], E[a, b]), z3.Or(AL[a], NL[a]))),
            graph_unchanged(g, old),
        )

    invariants = property(lambda self: {0: self.inv0, 1: self.inv1})


register(GetAncestorsOf())


# ---------------------------------------------------------------------------------------------------
class ReachTheory:
    """Reach(s; n, d) for fixed E, Z: closure axioms + leastness instances."""

    def __init__(self, ex, E, Z):
        self.ex, self.E, self.Z = ex, E, Z
        self.A = anc_spec(ex, E, Z)
        self.R = z3.Function(f"Reach!{fresh('r', B)}", Atom, Atom, Atom, B)
        s, n, m = fresh("s", Atom), fresh("n", Atom), fresh("m", Atom)
        R, A = self.R, self.A
        ex.axioms += [
            z3.ForAll([s], R(s, s, UP)),
            z3.ForAll([s, n, m], z3.Implies(z3.And(R(s, n, UP), z3.Not(Z[n]), E[m, n]), R(s, m, UP))),
            z3.ForAll([s, n, m], z3.Implies(z3.And(R(s, n, UP), z3.Not(Z[n]), E[n, m]), R(s, m, DOWN))),
            z3.ForAll([s, n, m], z3.Implies(z3.And(R(s, n, DOWN), z3.Not(Z[n]), E[n, m]), R(s, m, DOWN))),
            z3.ForAll([s, n, m], z3.Implies(z3.And(R(s, n, DOWN), A[n], E[m, n]), R(s, m, UP))),
        ]

    def step_closed(self, T, V):
        """every step-successor of a state in T is in T or V (T, V: arrays over (node, dir) pairs)."""
        n, m = fresh("n", Atom), fresh("m", Atom)
        E, Z, A = self.E, self.Z, self.A
        mk = PairAD.mk
        tv = lambda p: z3.Or(T[p], V[p])
        return z3.And(
            z3.ForAll([n, m], z3.Implies(z3.And(T[mk(n, UP)], z3.Not(Z[n]), E[m, n]), tv(mk(m, UP)))),
            z3.ForAll([n, m], z3.Implies(z3.And(T[mk(n, UP)], z3.Not(Z[n]), E[n, m]), tv(mk(m, DOWN)))),
            z3.ForAll([n, m], z3.Implies(z3.And(T[mk(n, DOWN)], z3.Not(Z[n]), E[n, m]), tv(mk(m, DOWN)))),
            z3.ForAll([n, m], z3.Implies(z3.And(T[mk(n, DOWN)], A[n], E[m, n]), tv(mk(m, UP)))),
        )

    def least(self, s, T):
        """leastness instance: T contains (s,up) and is step-closed  =>  Reach(s;.,.) subseteq T."""
        n, d = fresh("n", Atom), fresh("d", Atom)
        return z3.Implies(
            z3.And(T[PairAD.mk(s, UP)], self.step_closed(T, empty_set(PairAD))),
            z3.ForAll([n, d], z3.Implies(z3.And(self.R(s, n, d), z3.Or(d == UP, d == DOWN)), T[PairAD.mk(n, d)])),
        )

    def dconn_set(self, s):
        n = fresh("n", Atom)
        return z3.Lambda([n], z3.And(z3.Not(self.Z[n]), z3.Or(self.R(s, n, UP), self.R(s, n, DOWN))))


def atn_fn(ex, E):
    """ghost function of one graph (and its latent flags): ATN(start, Z, include_latents) = active_trail_nodes(start, Z, ...)[start]"""
    store = ex.__dict__.setdefault("_atn_fns", [])
    for E0, f in store:
        if E0.eq(E):
            return f
    f = z3.Function(f"active_trail!{len(store)}", Atom, set_sort(Atom), B, set_sort(Atom))
    store.append((E, f))
    return f


class ActiveTrailNodes(Contract):
    pure = True   # does not modify any pre-existing object
    file = "pgmpy/base/DAG.py"
    qual = "DAG.active_trail_nodes"

    def variants(self, ex):
        for vlabel in ("single", "list"):
            for olabel in ("None", "list", "set", "tuple", "single"):
                g = new_graph("DAG", "g")
                variables = atom("start", "str") if vlabel == "single" else atom_list("starts", "list")
                observed = {"None": NONE, "list": atom_list("obs", "list"), "set": atom_list("obs", "set"),
                            "tuple": atom_list("obs", "tuple"), "single": atom("obs1", "str")}[olabel]
                args = {"self": g, "variables": variables, "observed": observed,
                        "include_latents": Scalar(z3.Const("include_latents", B))}
                yield f"variables={vlabel},observed={olabel}", args, {}

    @staticmethod
    def Z(args):
        o = args["observed"]
        if isinstance(o, NoneV):
            return empty_set(Atom)
        if isinstance(o, Scalar):
            return z3.Store(empty_set(Atom), o.z, True)
        return mem_or_empty(o)

    def theory(self, ex, args, E):
        """Reach theory for (E, Z); Z is looked up modulo extensional equality so that the same observed set built
        in two ways (e.g. `[X] + list(Z)` in the code, {X} u Z in a caller's contract) shares one relation."""
        Z = self.Z(args)
        store = ex.__dict__.setdefault("_reach_theories", [])
        for (E0, Z0, th) in store:
            if E0.eq(E) and (Z0.eq(Z) or self._same_set(Z0, Z)):
                return th
        th = ReachTheory(ex, E, Z)
        store.append((E, Z, th))
        return th

    @staticmethod
    def _same_set(a, b):
        x = fresh("x", Atom)
        s = z3.Solver()
        s.set("timeout", 1000)
        s.add(a[x] != b[x])
        return s.check() == z3.unsat

    def starts(self, args):
        v = args["variables"]
        if isinstance(v, Scalar):
            return z3.Store(empty_set(Atom), v.z, True)
        return mem_or_empty(v)

    def pre(self, ex, st, args):
        g = args["self"]
        x = fresh("x", Atom)
        return z3.And(wf_graph(g), z3.ForAll([x], z3.Implies(self.Z(args)[x], N_(g, x))),
                      z3.ForAll([x], z3.Implies(self.starts(args)[x], N_(g, x))))

    def snapshot(self, ex, st, args):
        return graph_snapshot(args["self"])

    def expected(self, ex, args, old, s):
        th = self.theory(ex, args, old["@E"])
        D = th.dconn_set(s)
        n = fresh("n", Atom)
        il = args["include_latents"].z
        return z3.Lambda([n], z3.And(D[n], z3.Or(il, z3.Not(old["latents"][n]))))

    def make_result(self, ex, st, args):
        return DictV(Atom, ("set", Atom), fresh("res_dom", set_sort(Atom)), fresh("res_val", z3.ArraySort(Atom, set_sort(Atom))))

    def post(self, ex, st, args, old, result):
        if not isinstance(result, DictV) or result.dom is None:
            return z3.BoolVal(False)
        S = self.starts(args)
        s, n = fresh("s", Atom), fresh("n", Atom)
        th = self.theory(ex, args, old["@E"])
        il = args["include_latents"].z
        D = lambda s_, n_: z3.And(z3.Not(self.Z(args)[n_]), z3.Or(th.R(s_, n_, UP), th.R(s_, n_, DOWN)),
                                  z3.Or(il, z3.Not(old["latents"][n_])))
        return {"keys": z3.ForAll([s], result.dom[s] == S[s]),
                "values": z3.ForAll([s, n], z3.Implies(S[s], result.val[s][n] == D(s, n))),
                # ghost function naming the answer for this graph (callers speak about the answers for *all* observed sets with it)
                "def.ATN": z3.ForAll([s], z3.Implies(S[s], result.val[s] == atn_fn(ex, old["@E"])(s, self.Z(args), il))),
                "frame": graph_unchanged(args["self"], old)}

    # loop 0: for start in variables
    def inv0(self, ex, st, args, old, ghost):
        res = st.env["active_trails"]
        done = ghost["done"]
        s, n = fresh("s", Atom), fresh("n", Atom)
        th = self.theory(ex, args, old["@E"])
        il = args["include_latents"].z
        if res.dom is None:
            dom_ok = z3.ForAll([s], z3.Not(done[s]))
            vals_ok = z3.BoolVal(True)
        else:
            dom_ok = z3.ForAll([s], res.dom[s] == done[s])
            D = lambda s_, n_: z3.And(z3.Not(self.Z(args)[n_]), z3.Or(th.R(s_, n_, UP), th.R(s_, n_, DOWN)),
                                      z3.Or(il, z3.Not(old["latents"][n_])))
            vals_ok = z3.ForAll([s, n], z3.Implies(done[s], res.val[s][n] == D(s, n)))
        anc_ok = self.anc_ok(ex, st, args, old)
        return z3.And(dom_ok, vals_ok, anc_ok, graph_unchanged(args["self"], old))

    def anc_ok(self, ex, st, args, old):
        a = fresh("a", Atom)
        th = self.theory(ex, args, old["@E"])
        return z3.ForAll([a], mem_or_empty(st.env["ancestors_list"])[a] == th.A[a])

    # loop 1: while visit_list
    def inv1(self, ex, st, args, old, ghost):
        g = args["self"]
        th = self.theory(ex, args, old["@E"])
        start = z3_of(st.env["start"])
        VL = mem_or_empty(st.env["visit_list"], PairAD)
        TL = mem_or_empty(st.env["traversed_list"], PairAD)
        AN = mem_or_empty(st.env["active_nodes"])
        p, n = fresh("p", PairAD), fresh("n", Atom)
        fst, snd = PairAD.accessor(0, 0), PairAD.accessor(0, 1)
        sound = z3.ForAll([p], z3.Implies(z3.Or(VL[p], TL[p]),
                                          z3.And(th.R(start, fst(p), snd(p)), z3.Or(snd(p) == UP, snd(p) == DOWN), N_(g, fst(p)))))
        has_start = z3.Or(VL[PairAD.mk(start, UP)], TL[PairAD.mk(start, UP)])
        closed = th.step_closed(TL, VL)
        active = z3.ForAll([n], AN[n] == z3.And(z3.Not(th.Z[n]), z3.Or(TL[PairAD.mk(n, UP)], TL[PairAD.mk(n, DOWN)])))
        parts = [sound, has_start, closed, active, self.anc_ok(ex, st, args, old), graph_unchanged(g, old), N_(g, start)]
        # when nested in loop 0 the outer invariant must be carried through the inner loop
        if isinstance(args["variables"], Coll):
            res = st.env["active_trails"]
            if res.dom is not None:
                parts.append(z3.BoolVal(True))
        # ghost lemma (valid for the least fix-point): instance for the current traversed set
        st.assume(th.least(start, TL))
        return z3.And(*parts)

    invariants = property(lambda self: {0: self.inv0, 1: self.inv1})


register(ActiveTrailNodes())


# --------------------------------------------------------------------------------------------------- graph views
class GetMarkovBlanket(Contract):
    pure = True   # does not modify any pre-existing object
    file = "pgmpy/base/DAG.py"
    qual = "DAG.get_markov_blanket"

    def variants(self, ex):
        yield "any", {"self": new_graph("DAG", "g"), "node": atom("v")}, {}

    def pre(self, ex, st, args):
        return z3.And(wf_graph(args["self"]), N_(args["self"], args["node"].z))

    def snapshot(self, ex, st, args):
        return graph_snapshot(args["self"])

    def post(self, ex, st, args, old, result):
        if not isinstance(result, Coll):
            return z3.BoolVal(False)
        E, v = old["@E"], args["node"].z
        x, c = fresh("x", Atom), fresh("c", Atom)
        mem = mem_or_empty(result)
        spec = lambda y: z3.And(y != v, z3.Or(E[y, v], E[v, y], z3.Exists([c], z3.And(E[v, c], E[y, c]))))
        return z3.And(z3.ForAll([x], mem[x] == spec(x)), z3.BoolVal(result.nodup), graph_unchanged(args["self"], old))


class BNGetMarkovBlanket(GetMarkovBlanket):
    pure = True   # does not modify any pre-existing object
    file = "pgmpy/models/BayesianNetwork.py"
    qual = "BayesianNetwork.get_markov_blanket"

    def variants(self, ex):
        yield "any", {"self": new_graph("BayesianNetwork", "g"), "node": atom("v")}, {}


class Moralize(Contract):
    pure = True   # does not modify any pre-existing object
    file = "pgmpy/base/DAG.py"
    qual = "DAG.moralize"

    def variants(self, ex):
        yield "any", {"self": new_graph("DAG", "g")}, {}

    def pre(self, ex, st, args):
        return wf_graph(args["self"])

    def snapshot(self, ex, st, args):
        return graph_snapshot(args["self"])

    def make_result(self, ex, st, args):
        from vf.pyvc.lib import RelSort
        from vf.pyvc.engine import Obj
        return Obj("UndirectedGraph", {"@nodes": fresh("mg_nodes", set_sort(Atom)), "@E": fresh("mg_E", RelSort), "@directed": False})

    def spec_edges(self, E, over):
        c = fresh("c", Atom)
        return lambda a, b: z3.Or(E[a, b], E[b, a], z3.And(a != b, z3.Exists([c], z3.And(over[c], E[a, c], E[b, c]))))

    def post(self, ex, st, args, old, result):
        from vf.pyvc.engine import Obj
        if not isinstance(result, Obj) or result.fields.get("@directed", True):
            return z3.BoolVal(False)
        a, b = fresh("a", Atom), fresh("b", Atom)
        f = self.spec_edges(old["@E"], old["@nodes"])
        return z3.And(z3.ForAll([a], result.fields["@nodes"][a] == old["@nodes"][a]),
                      z3.ForAll([a, b], result.fields["@E"][a, b] == f(a, b)),
                      graph_unchanged(args["self"], old), z3.BoolVal(result is not args["self"]))

    def inv0(self, ex, st, args, old, ghost):
        mg = st.env["moral_graph"]
        a, b = fresh("a", Atom), fresh("b", Atom)
        f = self.spec_edges(old["@E"], ghost["done"])
        return z3.And(z3.ForAll([a], mg.fields["@nodes"][a] == old["@nodes"][a]),
                      z3.ForAll([a, b], mg.fields["@E"][a, b] == f(a, b)),
                      graph_unchanged(args["self"], old))

    invariants = property(lambda self: {0: self.inv0})


class IsDConnected(Contract):
    pure = True   # does not modify any pre-existing object
    file = "pgmpy/base/DAG.py"
    qual = "DAG.is_dconnected"

    def variants(self, ex):
        for olabel in ("None", "list", "set"):
            observed = {"None": NONE, "list": atom_list("obs", "list"), "set": atom_list("obs", "set")}[olabel]
            yield f"observed={olabel}", {"self": new_graph("DAG", "g"), "start": atom("start", "str"), "end": atom("end", "str"),
                                         "observed": observed}, {}

    def pre(self, ex, st, args):
        g = args["self"]
        x = fresh("x", Atom)
        Z = ActiveTrailNodes.Z(args)
        return z3.And(wf_graph(g), N_(g, args["start"].z), z3.ForAll([x], z3.Implies(Z[x], N_(g, x))))

    def snapshot(self, ex, st, args):
        return graph_snapshot(args["self"])

    def post(self, ex, st, args, old, result):
        if not isinstance(result, Scalar):
            return z3.BoolVal(False)
        atn = REGISTRY_ATN
        th = atn.theory(ex, {"observed": args["observed"]}, old["@E"])
        s, e = args["start"].z, args["end"].z
        # is_dconnected goes through active_trail_nodes(include_latents=False): a latent end node is never reported
        return result.z == z3.And(z3.Not(th.Z[e]), z3.Or(th.R(s, e, UP), th.R(s, e, DOWN)), z3.Not(old["latents"][e]))

    def make_result(self, ex, st, args):
        return Scalar(fresh("dconn", B))


class GetAncestralGraph(Contract):
    pure = True   # does not modify any pre-existing object
    file = "pgmpy/base/DAG.py"
    qual = "DAG.get_ancestral_graph"

    def make_result(self, ex, st, args):
        from vf.pyvc.lib import RelSort
        from vf.pyvc.engine import Obj
        return Obj("DAG", {"@nodes": fresh("ag_nodes", set_sort(Atom)), "@E": fresh("ag_E", RelSort), "@directed": True,
                           "latents": Coll("set", Atom, empty_set(Atom))})

    def variants(self, ex):
        yield "nodes=list", {"self": new_graph("DAG", "g"), "nodes": atom_list("S", "list")}, {}

    def pre(self, ex, st, args):
        g = args["self"]
        x = fresh("x", Atom)
        return z3.And(wf_graph(g), z3.ForAll([x], z3.Implies(mem_or_empty(args["nodes"])[x], N_(g, x))))

    def snapshot(self, ex, st, args):
        return graph_snapshot(args["self"])

    def post(self, ex, st, args, old, result):
        from vf.pyvc.engine import Obj
        if not isinstance(result, Obj):
            return z3.BoolVal(False)
        A = anc_spec(ex, old["@E"], mem_or_empty(args["nodes"]))
        a, b = fresh("a", Atom), fresh("b", Atom)
        return z3.And(z3.ForAll([a], result.fields["@nodes"][a] == A[a]),
                      z3.ForAll([a, b], result.fields["@E"][a, b] == z3.And(old["@E"][a, b], A[a], A[b])),
                      graph_unchanged(args["self"], old))


REGISTRY_ATN = ActiveTrailNodes()
register(REGISTRY_ATN)
for _c in (GetMarkovBlanket(), BNGetMarkovBlanket(), Moralize(), IsDConnected(), GetAncestralGraph()):
    register(_c)


class LocalIndependencies(Contract):
    pure = True   # does not modify any pre-existing object
    """local Markov property: for every requested v:  v _|_ (non-descendants - parents) | parents, asserted exactly when that set
    is non-empty; nothing else is asserted (a single name or a list / tuple of names)"""
    file = "pgmpy/base/DAG.py"
    qual = "DAG.local_independencies"

    def variants(self, ex):
        from .common import atom_list
        yield "variables=single", {"self": new_graph("DAG", "g"), "variables": atom("v", "str")}, {}
        yield "variables=list", {"self": new_graph("DAG", "g"), "variables": atom_list("vs", "list")}, {}
        yield "variables=tuple", {"self": new_graph("DAG", "g"), "variables": atom_list("vs", "tuple")}, {}

    @staticmethod
    def V(args):
        n = args["variables"]
        if isinstance(n, Scalar):
            return z3.Store(empty_set(Atom), n.z, True)
        return n.mem if n.mem is not None else empty_set(Atom)

    def pre(self, ex, st, args):
        x = fresh("x", Atom)
        return z3.And(wf_graph(args["self"]), z3.ForAll([x], z3.Implies(self.V(args)[x], N_(args["self"], x))))

    def snapshot(self, ex, st, args):
        return graph_snapshot(args["self"])

    def spec(self, ex, old, mem, over):
        """mem holds exactly the local assertion loc(v) of every v in `over` whose independent set is non-empty.
        loc: Atom -> IndAssertion is a ghost function defined field-wise (conservative: IA.mk of the three sets exists)."""
        from vf.pyvc.lib import IA, ia_fields
        E, Nn = old["@E"], old["@nodes"]
        P = ex.lib.theory(ex).path(E)
        x, v, r = fresh("x", Atom), fresh("v", Atom), fresh("r", IA)
        nd_minus_pa = lambda v_, y: z3.And(Nn[y], y != v_, z3.Not(P(v_, y)), z3.Not(E[y, v_]))
        if "@loc" not in old:
            loc = z3.Function("local_assertion", Atom, IA)
            old["@loc"] = loc
            l1, l2, l3 = ia_fields(loc(v))
            ex.axioms.append(z3.ForAll([v, x], z3.And(l1[x] == (x == v), l2[x] == nd_minus_pa(v, x), l3[x] == E[x, v])))
        loc = old["@loc"]
        r1, r2, r3 = ia_fields(r)
        return {"only-local-assertions": z3.ForAll([r, v], z3.Implies(z3.And(mem[r], r1[v]), z3.And(over[v], r == loc(v), z3.Exists([x], nd_minus_pa(v, x))))),
                "event1-nonempty": z3.ForAll([r], z3.Implies(mem[r], z3.Exists([v], r1[v]))),
                "every-nonempty-one-asserted": z3.ForAll([v, x], z3.Implies(z3.And(over[v], nd_minus_pa(v, x)), mem[loc(v)]))}

    def post(self, ex, st, args, old, result):
        from vf.pyvc.lib import IA
        if not isinstance(result, Obj) or "independencies" not in result.fields:
            return z3.BoolVal(False)
        lst = result.fields["independencies"]
        mem = lst.mem if lst.mem is not None else empty_set(IA)
        out = dict(self.spec(ex, old, mem, self.V(args)))
        out["frame"] = graph_unchanged(args["self"], old)
        return out

    # loop 0: for variable in (variables if isinstance(...) else [variables])
    def inv0(self, ex, st, args, old, ghost):
        from vf.pyvc.lib import IA
        ind = st.env["independencies"]
        lst = ind.fields["independencies"]
        mem = lst.mem if lst.mem is not None else empty_set(IA)
        return z3.And(*self.spec(ex, old, mem, ghost["done"]).values(), graph_unchanged(args["self"], old))

    invariants = property(lambda self: {0: self.inv0})


register(LocalIndependencies())


class MinimalDSeparator(Contract):
    pure = True   # does not modify any pre-existing object
    """partial contract (the Tian-Paz-Pearl minimality / existence theorem is bounded only): adjacent endpoints are
    rejected; a returned set contains no latent node, neither endpoint, and d-separates the endpoints in the
    ancestral graph of {start, end} (which is what the function tests)."""
    file = "pgmpy/base/DAG.py"
    qual = "DAG.minimal_dseparator"

    def variants(self, ex):
        yield "any", {"self": new_graph("DAG", "g"), "start": atom("start", "str"), "end": atom("end", "str")}, {}

    def pre(self, ex, st, args):
        g = args["self"]
        x = fresh("x", Atom)
        return z3.And(wf_graph(g), N_(g, args["start"].z), N_(g, args["end"].z), args["start"].z != args["end"].z,
                      z3.ForAll([x], z3.Implies(g.fields["latents"].mem[x], N_(g, x))))

    def snapshot(self, ex, st, args):
        return graph_snapshot(args["self"])

    def raises(self, ex, st, args):
        E, s, e = args["self"].fields["@E"], args["start"].z, args["end"].z
        return {"ValueError": z3.Or(E[s, e], E[e, s])}

    def on_raise(self, ex, st, args, old, exc):
        return graph_unchanged(args["self"], old)

    post_reads_locals = True

    def an_E(self, ex, old, args):
        s, e = args["start"].z, args["end"].z
        A = anc_spec(ex, old["@E"], z3.Store(z3.Store(empty_set(Atom), s, True), e, True))
        a, b = fresh("a", Atom), fresh("b", Atom)
        return A, z3.Lambda([a, b], z3.And(old["@E"][a, b], A[a], A[b]))

    def sep_ok(self, ex, st, args, old, mem):
        """mem holds no latent / endpoint and d-separates start,end in the ancestral graph"""
        an = st.env["an_graph"]
        s, e = args["start"].z, args["end"].z
        th = REGISTRY_ATN.theory(ex, {"observed": Coll("set", Atom, mem)}, an.fields["@E"])
        x = fresh("x", Atom)
        return z3.And(z3.ForAll([x], z3.Implies(mem[x], z3.And(z3.Not(old["latents"][x]), x != s, x != e))),
                      z3.Not(z3.And(z3.Not(th.Z[e]), z3.Or(th.R(s, e, UP), th.R(s, e, DOWN)))))

    def post(self, ex, st, args, old, result):
        if isinstance(result, NoneV):
            return {"frame": graph_unchanged(args["self"], old)}
        if not isinstance(result, Coll):
            return z3.BoolVal(False)
        # sep_ok speaks about the graph held by the local `an_graph`; the second clause pins that local to the specification
        # (the sub-graph induced by the ancestors of {start, end} in the pre-state), so the two together do not depend on the local
        return {"no-latent-no-endpoint-and-separates": self.sep_ok(ex, st, args, old, mem_or_empty(result)),
                "separates-in-the-ancestral-graph-of-the-spec": self.an_ok(ex, st, args, old),
                "frame": graph_unchanged(args["self"], old)}

    # loop 0: while separator contains latents ; loop 1: for u in separator (replace latent by its parents); loop 2: minimisation
    def an_ok(self, ex, st, args, old):
        """an_graph is the ancestral graph of {start, end} (callee contract, kept through the loops)"""
        an = st.env["an_graph"]
        A, EA = self.an_E(ex, old, args)
        a, b = fresh("a", Atom), fresh("b", Atom)
        return z3.And(z3.ForAll([a], an.fields["@nodes"][a] == A[a]), z3.ForAll([a, b], an.fields["@E"][a, b] == EA[a, b]),
                      z3.ForAll([a], z3.Not(an.fields["latents"].mem[a])))

    def inv0(self, ex, st, args, old, ghost):
        g = args["self"]
        x = fresh("x", Atom)
        A, _ = self.an_E(ex, old, args)
        sep = mem_or_empty(st.env["separator"])
        return z3.And(z3.ForAll([x], z3.Implies(sep[x], z3.And(N_(g, x), A[x]))), graph_unchanged(g, old), self.an_ok(ex, st, args, old))

    def inv1(self, ex, st, args, old, ghost):
        g = args["self"]
        x = fresh("x", Atom)
        A, _ = self.an_E(ex, old, args)
        sc = mem_or_empty(st.env["separator_copy"])
        sep = mem_or_empty(st.env["separator"])
        return z3.And(z3.ForAll([x], z3.Implies(z3.Or(sc[x], sep[x]), z3.And(N_(g, x), A[x]))), graph_unchanged(g, old),
                      z3.ForAll([x], z3.Implies(z3.And(sep[x], z3.Not(ghost["done"][x])), sc[x])), self.an_ok(ex, st, args, old))

    def inv2(self, ex, st, args, old, ghost):
        g = args["self"]
        x = fresh("x", Atom)
        ms = mem_or_empty(st.env["minimal_separator"])
        sep = mem_or_empty(st.env["separator"])
        A, _ = self.an_E(ex, old, args)
        return z3.And(z3.ForAll([x], z3.Implies(ms[x], sep[x])), z3.ForAll([x], z3.Implies(sep[x], A[x])),
                      z3.ForAll([x], z3.Implies(z3.And(sep[x], z3.Not(ghost["done"][x])), ms[x])),
                      self.sep_ok(ex, st, args, old, ms), graph_unchanged(g, old), self.an_ok(ex, st, args, old))

    invariants = property(lambda self: {0: self.inv0, 1: self.inv1, 2: self.inv2})


register(MinimalDSeparator())


# --------------------------------------------------------------------------------------------------- get_independencies
class GetIndependencies(Contract):
    pure = True   # does not modify any pre-existing object
    """DAG.get_independencies(latex=False): with  N' = nodes (minus latents unless include_latents), rest(s) = N' - {s} and
    ATN(s, O) = the answer of active_trail_nodes(s, observed=O) (its contract: exactly the d-connected nodes),
    the result lists exactly the assertions   s _|_ rest(s) - O - ATN(s, O) | O   for s in N', O a proper subset of rest(s),
    whose middle set is non-empty.  The graph is not modified."""
    file = "pgmpy/base/DAG.py"
    qual = "DAG.get_independencies"

    def variants(self, ex):
        for il in (True, False):
            yield f"include_latents={il}", {"self": new_graph("DAG", "g"), "latex": Scalar(z3.BoolVal(False)), "include_latents": Scalar(z3.BoolVal(il))}, {}

    def pre(self, ex, st, args):
        g = args["self"]
        x = fresh("x", Atom)
        return z3.And(wf_graph(g), z3.ForAll([x], z3.Implies(g.fields["latents"].mem[x], N_(g, x))))

    def snapshot(self, ex, st, args):
        return graph_snapshot(args["self"])

    # ---- specification pieces
    def pieces(self, ex, args, old):
        from vf.pyvc.lib import IA, ia_fields
        il = args["include_latents"].z
        E, Nn, lat = old["@E"], old["@nodes"], old["latents"]
        ATN = atn_fn(ex, E)
        SS = set_sort(Atom)
        Np = lambda s: z3.And(Nn[s], z3.Or(il, z3.Not(lat[s])))
        rest = lambda s, x: z3.And(Np(x), x != s)
        D = lambda s, O, x: z3.And(rest(s, x), z3.Not(O[x]), z3.Not(ATN(s, O, il)[x]))
        if "@gi" not in old:
            gi = z3.Function("listed_assertion", Atom, SS, IA)
            old["@gi"] = gi
            s, x, O = fresh("s", Atom), fresh("x", Atom), fresh("O", SS)
            g1, g2, g3 = ia_fields(gi(s, O))
            ex.axioms.append(z3.ForAll([s, O, x], z3.And(g1[x] == (x == s), g2[x] == D(s, O, x), g3[x] == O[x])))
        return Np, rest, D, old["@gi"]

    def sub(self, ex, st, rest, s, O):
        """O is a proper subset of rest(s)  (sizes 0 .. |rest| - 1)"""
        x = fresh("x", Atom)
        return z3.And(z3.ForAll([x], z3.Implies(O[x], rest(s, x))), z3.Exists([x], z3.And(rest(s, x), z3.Not(O[x]))))

    def good(self, ex, st, args, old, M):
        """every listed assertion is one of the specified ones"""
        from vf.pyvc.lib import IA
        Np, rest, D, gi = self.pieces(ex, args, old)
        SS = set_sort(Atom)
        r, s, O, x = fresh("r", IA), fresh("s", Atom), fresh("O", SS), fresh("x", Atom)
        return z3.ForAll([r], z3.Implies(M[r], z3.Exists([s, O], z3.And(Np(s), self.sub(ex, st, rest, s, O), z3.Exists([x], D(s, O, x)), r == gi(s, O)))))

    def cov(self, ex, st, args, old, M, which):
        """every specified assertion with (s, O) in `which` is listed"""
        Np, rest, D, gi = self.pieces(ex, args, old)
        SS = set_sort(Atom)
        s, O, x = fresh("s", Atom), fresh("O", SS), fresh("x", Atom)
        return z3.ForAll([s, O, x], z3.Implies(z3.And(Np(s), self.sub(ex, st, rest, s, O), which(s, O), D(s, O, x)), M[gi(s, O)]))

    def post(self, ex, st, args, old, result):
        from vf.pyvc.lib import IA
        if not isinstance(result, Obj) or "independencies" not in result.fields:
            return z3.BoolVal(False)
        lst = result.fields["independencies"]
        M = lst.mem if lst.mem is not None else empty_set(IA)
        return {"only-d-separation-statements": self.good(ex, st, args, old, M),
                "every-maximal-statement-listed": self.cov(ex, st, args, old, M, lambda s, O: z3.BoolVal(True)),
                "frame": graph_unchanged(args["self"], old)}

    # ---- invariants: loop 0 `for start in nodes`, loop 1 `for r in range(len(rest))`, loop 2 `for observed in combinations(rest, r)`
    def _M(self, st):
        from vf.pyvc.lib import IA
        lst = st.env["independencies"].fields["independencies"]
        return lst.mem if lst.mem is not None else empty_set(IA)

    def _inv(self, ex, st, args, old, ghost, level):
        M = self._M(st)
        card = lambda O: ex.lib.card(ex, Coll("frozenset", Atom, O), st)
        d0 = ghost["done"] if level == 0 else st.ghost["done0"]
        parts = [self.good(ex, st, args, old, M), graph_unchanged(args["self"], old)]
        if level == 0:
            if isinstance(st.env.get("rest"), Coll) and st.env["rest"].mem is not None:
                # ghost lemma at the end of an outer iteration: the sizes 0 .. |rest| - 1 cover every strict subset of rest
                st.assume(ex.lib.card_strict_subset(ex, st.env["rest"].mem, Atom, st))
            parts.append(self.cov(ex, st, args, old, M, lambda s, O: d0[s]))
            return z3.And(*parts)
        cur = z3_of(st.env["start"])
        d1 = ghost["done"] if level == 1 else st.ghost["done1"]
        if level == 1:
            parts.append(self.cov(ex, st, args, old, M, lambda s, O: z3.Or(d0[s], z3.And(s == cur, d1[card(O)]))))
            return z3.And(*parts)
        r = z3_of(st.env["r"])
        d2 = ghost["done"]
        parts.append(self.cov(ex, st, args, old, M, lambda s, O: z3.Or(d0[s], z3.And(s == cur, z3.Or(d1[card(O)], z3.And(card(O) == r, d2[O]))))))
        return z3.And(*parts)

    invariants = property(lambda self: {0: lambda ex, st, a, o, g: self._inv(ex, st, a, o, g, 0),
                                        1: lambda ex, st, a, o, g: self._inv(ex, st, a, o, g, 1),
                                        2: lambda ex, st, a, o, g: self._inv(ex, st, a, o, g, 2)})


register(GetIndependencies())
