"""Sidecar contract for C05: BayesianNetwork.check_model (control flow of model validation).

CPD objects are opaque references (vf/pyvc/lib.py, cpd_attr): `variables`, `cardinality` are lists, `state_names` a dict,
`get_evidence()` / `is_valid_cpd()` pure functions of the object; `get_cpds(node)` is a pure function of the node returning an
object or None.  Class invariants of CPD objects assumed in the precondition (they are established by TabularCPD.__init__ and
BayesianNetwork.add_cpds and validated at run time by the bounded groups of C05):
    the evidence list holds exactly variables[1:];   get_cpds(n).variables[0] == n;   every attached CPD is tabular or continuous.
Proved: check_model() returns True only if every node has a CPD whose evidence set equals the node's parents, with state names for
all its variables and valid (normalised) columns, and whose k-th parent has, in its own CPD, the same cardinality and the same
state names as this CPD lists for it; in every other case it raises ValueError.  It never returns anything but True.
"""
import z3

from vf.pyvc.engine import Atom, B, I, Opaque, Coll, Contract, NONE, Obj, Scalar, empty_set, fresh, register, set_sort
from vf.pyvc.lib import N_, new_graph, wf_graph

from .common import graph_snapshot, graph_unchanged

cpd_of = z3.Function("cpd_of", Atom, Opaque)
has_cpd = z3.Function("has_cpd", Atom, B)
is_cpd = z3.Function("cpd_isinstance_ContinuousFactor_TabularCPD", Opaque, B)
vars_mem = z3.Function("cpd_variables", Opaque, set_sort(Atom))
vars_at = z3.Function("cpd_variables_at", Opaque, I, Atom)
vars_len = z3.Function("cpd_variables_len", Opaque, I)
vars_idx = z3.Function("cpd_variables_idx", Opaque, Atom, I)
card_at = z3.Function("cpd_cardinality_at", Opaque, I, I)
card_len = z3.Function("cpd_cardinality_len", Opaque, I)
ev_mem = z3.Function("cpd_evidence", Opaque, set_sort(Atom))
valid = z3.Function("cpd_is_valid", Opaque, B)
sn_dom = z3.Function("cpd_state_names_dom", Opaque, set_sort(Atom))
sn_val = z3.Function("cpd_state_names_val", Opaque, z3.ArraySort(Atom, Opaque))


class CheckModel(Contract):
    pure = True   # does not modify any pre-existing object
    file = "pgmpy/models/BayesianNetwork.py"
    qual = "BayesianNetwork.check_model"

    def variants(self, ex):
        g = new_graph("BayesianNetwork", "m")
        g.fields["__cpds__"] = True
        yield "any", {"self": g}, {}

    def pre(self, ex, st, args):
        g = args["self"]
        n, i, x = fresh("n", Atom), fresh("i", I), fresh("x", Atom)
        c = cpd_of(n)
        r = fresh("r", Opaque)
        return z3.And(
            wf_graph(g),
            # `variables` of any CPD object is a list: its entries are its members
            z3.ForAll([r, i], z3.Implies(z3.And(0 <= i, i < vars_len(r)), vars_mem(r)[vars_at(r, i)])),
            # class invariants of the attached CPD objects
            z3.ForAll([n], z3.Implies(z3.And(N_(g, n), has_cpd(n)), z3.And(
                is_cpd(c), vars_len(c) >= 1, vars_at(c, 0) == n, card_len(c) == vars_len(c),
                # evidence list = variables[1:]  (both directions, with the position function of the list as witness)
                z3.ForAll([i], z3.Implies(z3.And(1 <= i, i < vars_len(c)), ev_mem(c)[vars_at(c, i)])),
                z3.ForAll([x], z3.Implies(ev_mem(c)[x], z3.And(1 <= vars_idx(c, x), vars_idx(c, x) < vars_len(c), vars_at(c, vars_idx(c, x)) == x)))))))

    def snapshot(self, ex, st, args):
        return graph_snapshot(args["self"])

    def ok(self, args, E):
        """what a validated model satisfies"""
        g = args["self"]
        n, i, x = fresh("n", Atom), fresh("i", I), fresh("x", Atom)
        c = cpd_of(n)
        p = vars_at(c, i)
        first = z3.ForAll([n], z3.Implies(N_(g, n), z3.And(
            has_cpd(n),
            z3.ForAll([x], ev_mem(c)[x] == E[x, n]),
            z3.ForAll([x], z3.Implies(vars_mem(c)[x], sn_dom(c)[x])),
            valid(c))))
        second = z3.ForAll([n, i], z3.Implies(z3.And(N_(g, n), 1 <= i, i < vars_len(c)), z3.And(
            card_at(cpd_of(p), 0) == card_at(c, i),
            sn_val(cpd_of(p))[p] == sn_val(c)[p])))
        return z3.And(first, second)

    def raises(self, ex, st, args):
        return {"ValueError": z3.Not(self.ok(args, args["self"].fields["@E"]))}

    def on_raise(self, ex, st, args, old, exc):
        return graph_unchanged(args["self"], old)

    def post(self, ex, st, args, old, result):
        if not isinstance(result, Scalar):
            return z3.BoolVal(False)
        return {"returns-True": result.z == z3.BoolVal(True), "validated": self.ok(args, old["@E"]), "frame": graph_unchanged(args["self"], old)}

    # loop 0: for node in self.nodes()  (per-node checks)
    def inv0(self, ex, st, args, old, ghost):
        g = args["self"]
        done = ghost["done"]
        n, x = fresh("n", Atom), fresh("x", Atom)
        c = cpd_of(n)
        E = old["@E"]
        return z3.And(graph_unchanged(g, old), z3.ForAll([n], z3.Implies(done[n], z3.And(
            has_cpd(n), z3.ForAll([x], ev_mem(c)[x] == E[x, n]), z3.ForAll([x], z3.Implies(vars_mem(c)[x], sn_dom(c)[x])), valid(c)))))

    # loop 1: for node in self.nodes()  (parent agreement), loop 2: for index, node in enumerate(cpd.variables[1:])
    def first_ok(self, args, old):
        g = args["self"]
        n, x = fresh("n", Atom), fresh("x", Atom)
        c = cpd_of(n)
        E = old["@E"]
        return z3.ForAll([n], z3.Implies(N_(g, n), z3.And(has_cpd(n), z3.ForAll([x], ev_mem(c)[x] == E[x, n]),
                                                          z3.ForAll([x], z3.Implies(vars_mem(c)[x], sn_dom(c)[x])), valid(c))))

    def agree(self, n, i):
        c = cpd_of(n)
        p = vars_at(c, i)
        return z3.And(card_at(cpd_of(p), 0) == card_at(c, i), sn_val(cpd_of(p))[p] == sn_val(c)[p])

    def inv1(self, ex, st, args, old, ghost):
        g = args["self"]
        done = ghost["done"]
        n, i = fresh("n", Atom), fresh("i", I)
        return z3.And(graph_unchanged(g, old), self.first_ok(args, old),
                      z3.ForAll([n, i], z3.Implies(z3.And(done[n], 1 <= i, i < vars_len(cpd_of(n))), self.agree(n, i))))

    def inv2(self, ex, st, args, old, ghost):
        from vf.pyvc.engine import tuple_sort
        g = args["self"]
        d1 = st.ghost["done1"]
        cur = st.ghost["cur1"]          # the node of the outer loop (the inner loop re-binds the name `node`)
        done = ghost["done"]            # pairs (index, variable) already checked
        ps = tuple_sort([I, Atom])
        n, i = fresh("n", Atom), fresh("i", I)
        c = cpd_of(cur)
        return z3.And(graph_unchanged(g, old), self.first_ok(args, old), N_(g, cur),
                      # spelled out for the solver (instances of the class invariant for the current node)
                      has_cpd(cur), card_len(c) == vars_len(c), vars_len(c) >= 1,
                      z3.ForAll([n, i], z3.Implies(z3.And(d1[n], 1 <= i, i < vars_len(cpd_of(n))), self.agree(n, i))),
                      z3.ForAll([i], z3.Implies(z3.And(1 <= i, i < vars_len(c), done[ps.mk(i - 1, vars_at(c, i))]), self.agree(cur, i))))

    invariants = property(lambda self: {0: self.inv0, 1: self.inv1, 2: self.inv2})


register(CheckModel())
