"""Frame contracts (modifies clauses) of the discrete factor / CPD API - C04, C05, C16.

  out-of-place call (inplace=False, operators, copy, to_factor, ...):  modifies {}  and the result shares no mutable
      part (variables list, cardinality / values arrays, outer state-name dicts) with any operand;
  in-place call (inplace=True):  modifies self only  - the *other* operand is never written;
  class-wide lemma: no method writes to an inner state-name list / inner name<->number map (which copies share).

Decided by vf/pyvc/frames.py on the real source.  A reported write is a *candidate* (may-analysis): it becomes a
violation only together with a failing input of the bounded groups (operand snapshots), otherwise the run is undecided.
"""
import time

from vf.pyvc import frames as F

FILES = ["pgmpy/factors/discrete/DiscreteFactor.py", "pgmpy/factors/discrete/CPD.py", "pgmpy/factors/base.py",
         "pgmpy/utils/state_name.py"]

UNARY = ["marginalize", "maximize", "normalize", "reduce"]
BINARY = ["sum", "product", "divide"]
PURE_DF = ["copy", "__eq__", "__hash__", "__mul__", "__rmul__", "__add__", "__radd__", "__truediv__", "assignment", "scope",
           "get_cardinality", "is_valid_cpd", "__str__"]
CPD_INPLACE = ["normalize", "marginalize", "reduce", "reorder_parents"]
PURE_CPD = ["copy", "to_factor", "get_values", "get_evidence", "__str__"]
FUNCS = ["factor_product", "factor_divide", "factor_sum_product"]


def tasks(index):
    """yields (name, fdef, owner, params, allowed)"""
    def fac(tag, cls="DiscreteFactor"):
        return F.make_factor(tag, cls)
    for m in UNARY:
        for ip in (False, True):
            s = fac("self")
            yield f"DiscreteFactor.{m}[inplace={ip}]", "DiscreteFactor", m, {"self": s, "inplace": ("const", ip)}, ({s} if ip else set())
    for m in BINARY:
        for ip in (False, True):
            s, o = fac("self"), fac("phi1")
            yield f"DiscreteFactor.{m}[inplace={ip},phi1=factor]", "DiscreteFactor", m, {"self": s, "phi1": o, "inplace": ("const", ip)}, ({s} if ip else set())
        s = fac("self")
        yield f"DiscreteFactor.{m}[inplace=False,phi1 is self]", "DiscreteFactor", m, {"self": s, "phi1": s, "inplace": ("const", False)}, set()
    for m in PURE_DF:
        s, o = fac("self"), fac("other")
        params = {"self": s}
        fdef, _ = index.method("DiscreteFactor", m)
        if fdef is None:
            continue
        argn = [a.arg for a in fdef.args.args][1:]
        if argn and argn[0] in ("other", "phi1"):
            params[argn[0]] = o
        yield f"DiscreteFactor.{m}", "DiscreteFactor", m, params, set()
    for m in CPD_INPLACE:
        for ip in (False, True):
            s = fac("self", "TabularCPD")
            yield f"TabularCPD.{m}[inplace={ip}]", "TabularCPD", m, {"self": s, "inplace": ("const", ip)}, ({s} if ip else set())
    for m in PURE_CPD:
        s = fac("self", "TabularCPD")
        yield f"TabularCPD.{m}", "TabularCPD", m, {"self": s}, set()
    for fn in FUNCS:
        a, b = fac("phi1"), fac("phi2")
        fdef = index.funcs.get(fn)
        if fdef is None:
            continue
        if fdef.args.vararg:
            yield f"{fn}", None, fn, {fdef.args.vararg.arg: [a, b]}, set()
        elif fn == "factor_sum_product":
            yield f"{fn}", None, fn, {"output_vars": F.EMPTY, "factors": [a, b]}, set()
        else:
            names = [x.arg for x in fdef.args.args]
            yield f"{fn}", None, fn, dict(zip(names, [a, b])), set()


def run(rep, repo, select=None):
    """adds one obligation per (callable, clause) to the report"""
    t0 = time.time()
    index = F.ClassIndex(repo, FILES)
    n = 0
    for name, cls, meth, params, allowed in tasks(index):
        if select is not None and not select(name):
            continue
        if cls is None:
            fdef, owner = index.funcs.get(meth), None
        else:
            fdef, owner = index.method(cls, meth)
        if fdef is None:
            rep.undecided.append(f"frame/{name}: callable not found in the current source")
            continue
        t1 = time.time()
        try:
            res = F.check_callable(index, fdef, owner, params, allowed)
        except Exception as e:  # analysis does not cover a new construct: undecided, never a violation
            rep.undecided.append(f"frame/{name}: analysis failed ({type(e).__name__}: {e})")
            continue
        secs = time.time() - t1
        fa = res["analysis"]
        rep.assumptions += sorted(fa.assumed)
        if fa.unknown_calls:
            rep.assumptions.append("frame analysis: unknown callables are assumed not to write to their arguments: " + ", ".join(sorted(fa.unknown_calls)))
        clauses = {"modifies-only-frame": res["effects_outside_frame"], "inner-state-maps-never-written": res["inner_writes"]}
        if not allowed:
            clauses["result-shares-no-mutable-part"] = res["result_shares"]
        for cname, offending in clauses.items():
            ob = f"frame/{name}/{cname}"
            n += 1
            verdict = "discharged" if not offending else "refuted-frame"
            rep.add_obligation({"name": ob, "verdict": "discharged" if not offending else "refuted", "backend": "frame-analysis (vf/pyvc/frames.py)",
                                "secs": round(secs, 3), "function": name, "size": len(fa.effects), "kind": "frame"})
            if offending:
                rep.candidates.append({"key": f"E1:{ob}", "what": f"obligation {ob}: possible write outside the frame: {str(offending[0])[:300]}",
                                       "payload": {"engine": "E1-frames", "obligation": ob, "function": name,
                                                   "solver_output": "\n".join(str(x) for x in offending[:10]), "no_failing_input": True}})
        f = rep.functions.setdefault(f"frame:{name}", {"file": "pgmpy/factors/...", "obligations": 0, "discharged": 0})
        f["obligations"] += len(clauses)
        f["discharged"] += sum(1 for v in clauses.values() if not v)
        f["status"] = "proved" if f["obligations"] == f["discharged"] else "not-proved"
    rep.trusted.append("vf/pyvc/frames.py: may-points-to / write-effect analysis with tables of numpy/compat_fns/list/dict operations "
                       "(which return views, which fresh objects, which mutate)")
    return n
