"""Sidecar contracts for C13 (interventions): CausalInference back-door test on top of the C08 contracts.

is_valid_backdoor_adjustment_set(X, Y, Z)  <=>  every parent p of X is d-separated from Y given {X} u Z
(the *criterion* "Z blocks every back-door path and contains no descendant of X" being equivalent to this test
for Z among the non-descendants of X is a graph theorem; it is decided by the bounded groups of C13).
"""
import z3

from vf.pyvc.engine import Atom, B, Coll, Contract, NONE, Obj, Scalar, empty_set, fresh, register, set_sort
from vf.pyvc.lib import N_, new_graph, wf_graph

from .common import atom, atom_list, graph_snapshot, graph_unchanged
from .c08 import REGISTRY_ATN, UP, DOWN
from . import c15  # noqa: DAG.do lives there


class IsValidBackdoor(Contract):
    file = "pgmpy/inference/CausalInference.py"
    qual = "CausalInference.is_valid_backdoor_adjustment_set"

    def variants(self, ex):
        for zl, Z in (("list", atom_list("Z", "list")), ("frozenset", atom_list("Z", "frozenset")), ("None", NONE), ("single", atom("z1", "str"))):
            g = new_graph("BayesianNetwork", "m")
            this = Obj("CausalInference", {"model": g})
            yield f"Z={zl}", {"self": this, "X": atom("X", "str"), "Y": atom("Y", "str"), "Z": Z}, {}

    @staticmethod
    def Zset(args):
        z = args["Z"]
        if z is NONE or isinstance(z, type(NONE)):
            return empty_set(Atom)
        if isinstance(z, Scalar):
            return z3.Store(empty_set(Atom), z.z, True)
        return z.mem if z.mem is not None else empty_set(Atom)

    def pre(self, ex, st, args):
        g = args["self"].fields["model"]
        x = fresh("x", Atom)
        return z3.And(wf_graph(g), N_(g, args["X"].z), z3.ForAll([x], z3.Implies(self.Zset(args)[x], N_(g, x))))

    def snapshot(self, ex, st, args):
        return graph_snapshot(args["self"].fields["model"])

    def post(self, ex, st, args, old, result):
        if not isinstance(result, Scalar):
            return z3.BoolVal(False)
        X, Y = args["X"].z, args["Y"].z
        Zs = self.Zset(args)
        a = fresh("a", Atom)
        obs = Coll("list", Atom, z3.Lambda([a], z3.Or(a == X, Zs[a])))
        th = REGISTRY_ATN.theory(ex, {"observed": obs}, old["@E"])
        p = fresh("p", Atom)
        dconn = lambda s: z3.And(z3.Not(th.Z[Y]), z3.Or(th.R(s, Y, UP), th.R(s, Y, DOWN)), z3.Not(old["latents"][Y]))
        return z3.And(result.z == z3.ForAll([p], z3.Implies(old["@E"][p, X], z3.Not(dconn(p)))),
                      graph_unchanged(args["self"].fields["model"], old))


register(IsValidBackdoor())
