"""Sidecar contracts for C13 (interventions): CausalInference back-door test on top of the C08 contracts.

is_valid_backdoor_adjustment_set(X, Y, Z)  <=>  every parent p of X is d-separated from Y given {X} u Z
(the *criterion* "Z blocks every back-door path and contains no descendant of X" being equivalent to this test
for Z among the non-descendants of X is a graph theorem; it is decided by the bounded groups of C13).
"""
import z3

from vf.pyvc.engine import Atom, B, Coll, Contract, NONE, Obj, Scalar, empty_set, fresh, register, set_sort
from vf.pyvc.lib import N_, new_graph, wf_graph

from .common import atom, atom_list, graph_snapshot, graph_unchanged
from .c08 import REGISTRY_ATN, UP, DOWN
from . import c15  # noqa: DAG.do lives there


def bd_fn(ex, E):
    """ghost function of one graph: BD(X, Y, Z) = the answer of is_valid_backdoor_adjustment_set(X, Y, Z) (which its contract defines
    by the d-separation formula; the formula depends on Z only through its members, so BD is well defined)"""
    store = ex.__dict__.setdefault("_bd_fns", [])
    for E0, f in store:
        if E0.eq(E):
            return f
    f = z3.Function(f"backdoor_valid!{len(store)}", Atom, Atom, set_sort(Atom), B)
    store.append((E, f))
    return f


class IsValidBackdoor(Contract):
    pure = True   # does not modify any pre-existing object
    file = "pgmpy/inference/CausalInference.py"
    qual = "CausalInference.is_valid_backdoor_adjustment_set"

    def variants(self, ex):
        for zl, Z in (("list", atom_list("Z", "list")), ("frozenset", atom_list("Z", "frozenset")), ("None", NONE), ("single", atom("z1", "str"))):
            g = new_graph("BayesianNetwork", "m")
            this = Obj("CausalInference", {"model": g})
            yield f"Z={zl}", {"self": this, "X": atom("X", "str"), "Y": atom("Y", "str"), "Z": Z}, {}

    @staticmethod
    def Zset(args):
        z = args["Z"]
        if z is NONE or isinstance(z, type(NONE)):
            return empty_set(Atom)
        if isinstance(z, Scalar):
            return z3.Store(empty_set(Atom), z.z, True)
        return z.mem if z.mem is not None else empty_set(Atom)

    def pre(self, ex, st, args):
        g = args["self"].fields["model"]
        x = fresh("x", Atom)
        return z3.And(wf_graph(g), N_(g, args["X"].z), z3.ForAll([x], z3.Implies(self.Zset(args)[x], N_(g, x))))

    def snapshot(self, ex, st, args):
        return graph_snapshot(args["self"].fields["model"])

    def make_result(self, ex, st, args):
        # the answer as a term over the arguments (so that it can be abstracted over inside comprehensions)
        return Scalar(bd_fn(ex, args["self"].fields["model"].fields["@E"])(args["X"].z, args["Y"].z, self.Zset(args)))

    def post(self, ex, st, args, old, result):
        if not isinstance(result, Scalar):
            return z3.BoolVal(False)
        X, Y = args["X"].z, args["Y"].z
        Zs = self.Zset(args)
        a = fresh("a", Atom)
        obs = Coll("list", Atom, z3.Lambda([a], z3.Or(a == X, Zs[a])))
        th = REGISTRY_ATN.theory(ex, {"observed": obs}, old["@E"])
        p = fresh("p", Atom)
        dconn = lambda s: z3.And(z3.Not(th.Z[Y]), z3.Or(th.R(s, Y, UP), th.R(s, Y, DOWN)), z3.Not(old["latents"][Y]))
        # the answer is a function of (X, Y, Z) for the given graph: BD names it, so that callers can speak about *all* candidate sets
        return {"criterion": result.z == z3.ForAll([p], z3.Implies(old["@E"][p, X], z3.Not(dconn(p)))),
                "def.BD": result.z == bd_fn(ex, old["@E"])(X, Y, Zs),
                "model-untouched": graph_unchanged(args["self"].fields["model"], old)}


register(IsValidBackdoor())


class GetAllBackdoorSets(Contract):
    pure = True   # does not modify any pre-existing object
    """get_all_backdoor_adjustment_sets(X, Y): with P = observed variables - {X, Y} - descendants(X) and BD the validity test above,
      * frozenset() when the empty set is valid,
      * otherwise a family of subsets of P that are all valid (soundness) such that every valid subset of P contains one of them
        (nothing valid is missed); ValueError exactly when no subset of P is valid.
    The engine's model is not modified."""
    file = "pgmpy/inference/CausalInference.py"
    qual = "CausalInference.get_all_backdoor_adjustment_sets"

    def variants(self, ex):
        g = new_graph("BayesianNetwork", "m")
        this = Obj("CausalInference", {"model": g, "observed_variables": Coll("frozenset", Atom, z3.Const("observed", set_sort(Atom)))})
        yield "any", {"self": this, "X": atom("X", "str"), "Y": atom("Y", "str")}, {}

    def pre(self, ex, st, args):
        g = args["self"].fields["model"]
        obs = args["self"].fields["observed_variables"].mem
        x = fresh("x", Atom)
        return z3.And(wf_graph(g), z3.ForAll([x], z3.Implies(obs[x], N_(g, x))), obs[args["X"].z], obs[args["Y"].z])

    def snapshot(self, ex, st, args):
        return graph_snapshot(args["self"].fields["model"])

    def P(self, ex, args, old):
        X, Y = args["X"].z, args["Y"].z
        obs = args["self"].fields["observed_variables"].mem
        Pth = ex.lib.theory(ex).path(old["@E"])
        x = fresh("x", Atom)
        return z3.Lambda([x], z3.And(obs[x], x != X, x != Y, z3.Not(z3.And(Pth(X, x), x != X))))

    def raises(self, ex, st, args):
        g = args["self"].fields["model"]
        X, Y = args["X"].z, args["Y"].z
        BD = bd_fn(ex, g.fields["@E"])
        P = self.P(ex, args, {"@E": g.fields["@E"]})
        S = fresh("S", set_sort(Atom))
        from vf.pyvc.engine import subset
        return {"ValueError": z3.Not(z3.Exists([S], z3.And(subset(S, P, Atom), BD(X, Y, S))))}

    def on_raise(self, ex, st, args, old, exc):
        return graph_unchanged(args["self"].fields["model"], old)

    def post(self, ex, st, args, old, result):
        from vf.pyvc.engine import subset
        if not isinstance(result, Coll):
            return z3.BoolVal(False)
        SS = set_sort(Atom)
        X, Y = args["X"].z, args["Y"].z
        BD, P = bd_fn(ex, old["@E"]), self.P(ex, args, old)
        mem = result.mem if result.mem is not None else empty_set(SS)
        M, S = fresh("M", SS), fresh("S", SS)
        none_needed = BD(X, Y, empty_set(Atom))
        return {"empty-family-iff-no-adjustment-needed": z3.Implies(none_needed, z3.ForAll([M], z3.Not(mem[M]))),
                "sound": z3.ForAll([M], z3.Implies(mem[M], z3.And(subset(M, P, Atom), BD(X, Y, M)))),
                "nothing-valid-missed": z3.Implies(z3.Not(none_needed),
                                                   z3.ForAll([S], z3.Implies(z3.And(subset(S, P, Atom), BD(X, Y, S)),
                                                                             z3.Exists([M], z3.And(mem[M], subset(M, S, Atom)))))),
                "model-untouched": graph_unchanged(args["self"].fields["model"], old)}

    # loop 0: for s in _powerset(possible_adjustment_variables)    (loop 1, the scan of the sets found so far, only emits booleans)
    def inv0(self, ex, st, args, old, ghost):
        from vf.pyvc.engine import subset
        SS = set_sort(Atom)
        X, Y = args["X"].z, args["Y"].z
        BD, P = bd_fn(ex, old["@E"]), self.P(ex, args, old)
        V = st.env["valid_adjustment_sets"]
        mem = V.mem if V.mem is not None else empty_set(SS)
        done = ghost["done"]
        M, S = fresh("M", SS), fresh("S", SS)
        return z3.And(z3.ForAll([M], z3.Implies(mem[M], z3.And(subset(M, P, Atom), BD(X, Y, M), done[M]))),
                      z3.ForAll([S], z3.Implies(z3.And(done[S], BD(X, Y, S)), z3.Exists([M], z3.And(mem[M], subset(M, S, Atom))))),
                      z3.ForAll([S], z3.Implies(done[S], subset(S, P, Atom))),
                      graph_unchanged(args["self"].fields["model"], old))

    invariants = property(lambda self: {0: self.inv0})


register(GetAllBackdoorSets())


def fd_fn(ex, E):
    """ghost function of one graph: FD(X, Y, Z) = the answer of is_valid_frontdoor_adjustment_set(X, Y, Z)"""
    store = ex.__dict__.setdefault("_fd_fns", [])
    for E0, f in store:
        if E0.eq(E):
            return f
    f = z3.Function(f"frontdoor_valid!{len(store)}", Atom, Atom, set_sort(Atom), B)
    store.append((E, f))
    return f


class IsValidFrontdoor(Contract):
    pure = True   # does not modify any pre-existing object
    """is_valid_frontdoor_adjustment_set(X, Y, Z) on an acyclic model, X != Y:
       True  <=>  there is a directed path X ~> Y,  Z intercepts every directed path X ~> Y (Y not reachable from X without Z),
                  no back-door path X..z for z in Z  (BD(X, z, {})),  and X blocks every back-door path z..Y  (BD(z, Y, {X}))."""
    file = "pgmpy/inference/CausalInference.py"
    qual = "CausalInference.is_valid_frontdoor_adjustment_set"

    def variants(self, ex):
        for zl, Z in (("list", atom_list("Z", "list")), ("frozenset", atom_list("Z", "frozenset")), ("tuple", atom_list("Z", "tuple")),
                      ("None", NONE), ("single", atom("z1", "str"))):
            g = new_graph("BayesianNetwork", "m")
            yield f"Z={zl}", {"self": Obj("CausalInference", {"model": g}), "X": atom("X", "str"), "Y": atom("Y", "str"), "Z": Z}, {}

    def pre(self, ex, st, args):
        g = args["self"].fields["model"]
        x = fresh("x", Atom)
        return z3.And(wf_graph(g), ex.lib.theory(ex).acyclic(g.fields["@E"]), N_(g, args["X"].z), N_(g, args["Y"].z), args["X"].z != args["Y"].z,
                      z3.ForAll([x], z3.Implies(IsValidBackdoor.Zset(args)[x], N_(g, x))))

    def snapshot(self, ex, st, args):
        return graph_snapshot(args["self"].fields["model"])

    def make_result(self, ex, st, args):
        # a term over the arguments (see IsValidBackdoor.make_result): FD names the answer for the given graph
        return Scalar(fd_fn(ex, args["self"].fields["model"].fields["@E"])(args["X"].z, args["Y"].z, IsValidBackdoor.Zset(args)))

    def post(self, ex, st, args, old, result):
        from vf.pyvc.lib import RelSort
        if not isinstance(result, Scalar):
            return z3.BoolVal(False)
        X, Y, E = args["X"].z, args["Y"].z, old["@E"]
        Z = IsValidBackdoor.Zset(args)
        th = ex.lib.theory(ex)
        a, b, z = fresh("a", Atom), fresh("b", Atom), fresh("z", Atom)
        # ghost lemmas: the assumed simple-path theorems, for W = Z and W = {} (existence of a directed path)
        st.assume(th.sp_avoid(E, X, Y, Z))
        st.assume(th.sp_avoid(E, X, Y, empty_set(Atom)))
        EZ = th.avoid_rel(E, Z)   # ghost: the graph without the nodes of Z
        BD = bd_fn(ex, E)
        spec = z3.And(th.path(E)(X, Y), z3.Not(z3.And(z3.Not(Z[X]), th.path(EZ)(X, Y))),
                      z3.ForAll([z], z3.Implies(Z[z], BD(X, z, empty_set(Atom)))),
                      z3.ForAll([z], z3.Implies(Z[z], BD(z, Y, z3.Store(empty_set(Atom), X, True)))))
        return {"criterion": result.z == spec, "def.FD": result.z == fd_fn(ex, E)(X, Y, Z),
                "model-untouched": graph_unchanged(args["self"].fields["model"], old)}

    # loop 0: for zz in Z  (step 3) - emits booleans only


register(IsValidFrontdoor())


class GetAllFrontdoorSets(Contract):
    pure = True   # does not modify any pre-existing object
    """get_all_frontdoor_adjustment_sets(X, Y) = exactly the subsets S of observed - {X, Y} with FD(X, Y, S) (the validity test above)."""
    file = "pgmpy/inference/CausalInference.py"
    qual = "CausalInference.get_all_frontdoor_adjustment_sets"

    def variants(self, ex):
        g = new_graph("BayesianNetwork", "m")
        this = Obj("CausalInference", {"model": g, "observed_variables": Coll("frozenset", Atom, z3.Const("observed", set_sort(Atom)))})
        yield "any", {"self": this, "X": atom("X", "str"), "Y": atom("Y", "str")}, {}

    def pre(self, ex, st, args):
        g = args["self"].fields["model"]
        obs = args["self"].fields["observed_variables"].mem
        x = fresh("x", Atom)
        return z3.And(wf_graph(g), ex.lib.theory(ex).acyclic(g.fields["@E"]), z3.ForAll([x], z3.Implies(obs[x], N_(g, x))),
                      obs[args["X"].z], obs[args["Y"].z], args["X"].z != args["Y"].z)

    def snapshot(self, ex, st, args):
        return graph_snapshot(args["self"].fields["model"])

    def post(self, ex, st, args, old, result):
        from vf.pyvc.engine import subset
        if not isinstance(result, Coll):
            return z3.BoolVal(False)
        SS = set_sort(Atom)
        X, Y = args["X"].z, args["Y"].z
        obs = args["self"].fields["observed_variables"].mem
        x, S = fresh("x", Atom), fresh("S", SS)
        P = z3.Lambda([x], z3.And(obs[x], x != X, x != Y))
        mem = result.mem if result.mem is not None else empty_set(SS)
        return {"exactly-the-valid-subsets": z3.ForAll([S], mem[S] == z3.And(subset(S, P, Atom), fd_fn(ex, old["@E"])(X, Y, S))),
                "model-untouched": graph_unchanged(args["self"].fields["model"], old)}


register(GetAllFrontdoorSets())
