"""Sidecar contracts for C01: elimination-order bookkeeping (pgmpy/inference/EliminationOrder.py).

BaseEliminationOrder.get_elimination_order(nodes): whatever the heuristic `cost` returns (it is an arbitrary,
state-dependent function here, so WeightedMinFill / MinNeighbors / MinWeight / MinFill are all covered), the
result enumerates exactly the requested nodes, each once.  (That *any* such order yields the same posterior is
the algebraic part of C01 and is decided by the bounded groups.)
"""
import z3

from vf.pyvc.engine import Atom, B, I, R, Opaque, Coll, Contract, NONE, Obj, OpaqueFn, Scalar, empty_set, fresh, register, set_sort
from vf.pyvc.lib import N_, new_graph, wf_graph

from .common import atom_list
from . import c15  # BayesianNetwork.remove_node contract


class GetEliminationOrder(Contract):
    file = "pgmpy/inference/EliminationOrder.py"
    qual = "BaseEliminationOrder.get_elimination_order"

    def variants(self, ex):
        for nl in ("list", "set", "None"):
            bm = new_graph("BayesianNetwork", "bm")
            mm = new_graph("UndirectedGraph", "mm", directed=False, latents=False)
            this = Obj("BaseEliminationOrder", {"bayesian_model": bm, "moralized_model": mm,
                                                "__opaque__": {"cost": OpaqueFn("cost", R, pure=False)}})
            nodes = {"list": atom_list("nodes", "list"), "set": atom_list("nodes", "set"), "None": NONE}[nl]
            yield f"nodes={nl}", {"self": this, "nodes": nodes, "show_progress": Scalar(z3.Const("show_progress", B))}, {}

    @staticmethod
    def N0(args, old):
        n = args["nodes"]
        if isinstance(n, Coll):
            return n.mem
        return old["bm_nodes"]

    def snapshot(self, ex, st, args):
        return {"bm_nodes": args["self"].fields["bayesian_model"].fields["_nodes"],
                "nodes0": args["nodes"].mem if isinstance(args["nodes"], Coll) else None}

    def pre(self, ex, st, args):
        bm, mm = args["self"].fields["bayesian_model"], args["self"].fields["moralized_model"]
        x = fresh("x", Atom)
        req = [wf_graph(bm), wf_graph(mm), z3.ForAll([x], N_(bm, x) == N_(mm, x))]
        if isinstance(args["nodes"], Coll):
            req.append(z3.ForAll([x], z3.Implies(args["nodes"].mem[x], N_(bm, x))))
        return z3.And(*req)

    def post(self, ex, st, args, old, result):
        if not isinstance(result, Coll):
            return z3.BoolVal(False)
        N0 = old["nodes0"] if old["nodes0"] is not None else old["bm_nodes"]
        x = fresh("x", Atom)
        mem = result.mem if result.mem is not None else empty_set(Atom)
        nodup = result.nodup_z if result.nodup_z is not None else z3.BoolVal(bool(result.nodup) or result.mem is None)
        return {"enumerates-exactly-the-requested-nodes": z3.ForAll([x], mem[x] == N0[x]),
                "no-node-twice": nodup}

    # loop 0: while nodes
    def inv0(self, ex, st, args, old, ghost):
        bm, mm = args["self"].fields["bayesian_model"], args["self"].fields["moralized_model"]
        N0 = old["nodes0"] if old["nodes0"] is not None else old["bm_nodes"]
        nodes, ordering = st.env["nodes"], st.env["ordering"]
        om = ordering.mem if ordering.mem is not None else empty_set(Atom)
        nodup = ordering.nodup_z if ordering.nodup_z is not None else z3.BoolVal(True)
        x = fresh("x", Atom)
        return z3.And(
            z3.ForAll([x], N0[x] == z3.Or(nodes.mem[x], om[x])),
            z3.ForAll([x], z3.Not(z3.And(nodes.mem[x], om[x]))),
            nodup,
            z3.ForAll([x], z3.Implies(nodes.mem[x], z3.And(N_(bm, x), N_(mm, x)))),
            wf_graph(bm), wf_graph(mm),
        )

    invariants = property(lambda self: {0: self.inv0})


register(GetEliminationOrder())
