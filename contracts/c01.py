"""Sidecar contracts for C01: elimination-order bookkeeping (pgmpy/inference/EliminationOrder.py).

BaseEliminationOrder.get_elimination_order(nodes): whatever the heuristic `cost` returns (it is an arbitrary,
state-dependent function here, so WeightedMinFill / MinNeighbors / MinWeight / MinFill are all covered), the
result enumerates exactly the requested nodes, each once.  (That *any* such order yields the same posterior is
the algebraic part of C01 and is decided by the bounded groups.)
"""
import z3

from vf.pyvc.engine import Atom, B, I, R, Opaque, Coll, Contract, DictV, NONE, Obj, OpaqueFn, Scalar, empty_set, fresh, register, set_sort
from vf.pyvc.lib import N_, new_graph, wf_graph

from .common import atom_list
from . import c15  # BayesianNetwork.remove_node contract
from . import c08  # DAG.active_trail_nodes / get_ancestral_graph contracts


class GetEliminationOrder(Contract):
    file = "pgmpy/inference/EliminationOrder.py"
    qual = "BaseEliminationOrder.get_elimination_order"

    def variants(self, ex):
        for nl in ("list", "set", "None"):
            bm = new_graph("BayesianNetwork", "bm")
            mm = new_graph("UndirectedGraph", "mm", directed=False, latents=False)
            this = Obj("BaseEliminationOrder", {"bayesian_model": bm, "moralized_model": mm,
                                                "__opaque__": {"cost": OpaqueFn("cost", R, pure=False)}})
            nodes = {"list": atom_list("nodes", "list"), "set": atom_list("nodes", "set"), "None": NONE}[nl]
            yield f"nodes={nl}", {"self": this, "nodes": nodes, "show_progress": Scalar(z3.Const("show_progress", B))}, {}

    @staticmethod
    def N0(args, old):
        n = args["nodes"]
        if isinstance(n, Coll):
            return n.mem
        return old["bm_nodes"]

    def havoc(self, ex, st, args):
        from .common import havoc_graph
        havoc_graph(args["self"].fields["bayesian_model"], "eo_bm")
        havoc_graph(args["self"].fields["moralized_model"], "eo_mm", latents=False)

    def snapshot(self, ex, st, args):
        return {"bm_nodes": args["self"].fields["bayesian_model"].fields["@nodes"],
                "nodes0": args["nodes"].mem if isinstance(args["nodes"], Coll) else None}

    def pre(self, ex, st, args):
        bm, mm = args["self"].fields["bayesian_model"], args["self"].fields["moralized_model"]
        x = fresh("x", Atom)
        req = [wf_graph(bm), wf_graph(mm), z3.ForAll([x], N_(bm, x) == N_(mm, x))]
        if isinstance(args["nodes"], Coll):
            req.append(z3.ForAll([x], z3.Implies(args["nodes"].mem[x], N_(bm, x))))
        return z3.And(*req)

    def post(self, ex, st, args, old, result):
        if not isinstance(result, Coll):
            return z3.BoolVal(False)
        N0 = old["nodes0"] if old["nodes0"] is not None else old["bm_nodes"]
        x = fresh("x", Atom)
        mem = result.mem if result.mem is not None else empty_set(Atom)
        nodup = result.nodup_z if result.nodup_z is not None else z3.BoolVal(bool(result.nodup) or result.mem is None)
        return {"enumerates-exactly-the-requested-nodes": z3.ForAll([x], mem[x] == N0[x]),
                "no-node-twice": nodup}

    # loop 0: while nodes
    def inv0(self, ex, st, args, old, ghost):
        bm, mm = args["self"].fields["bayesian_model"], args["self"].fields["moralized_model"]
        N0 = old["nodes0"] if old["nodes0"] is not None else old["bm_nodes"]
        nodes, ordering = st.env["nodes"], st.env["ordering"]
        om = ordering.mem if ordering.mem is not None else empty_set(Atom)
        nodup = ordering.nodup_z if ordering.nodup_z is not None else z3.BoolVal(True)
        x = fresh("x", Atom)
        return z3.And(
            z3.ForAll([x], N0[x] == z3.Or(nodes.mem[x], om[x])),
            z3.ForAll([x], z3.Not(z3.And(nodes.mem[x], om[x]))),
            nodup,
            z3.ForAll([x], z3.Implies(nodes.mem[x], z3.And(N_(bm, x), N_(mm, x)))),
            wf_graph(bm), wf_graph(mm),
        )

    invariants = property(lambda self: {0: self.inv0})


register(GetEliminationOrder())


class VEGetEliminationOrder(Contract):
    pure = True   # does not modify any pre-existing object
    """VariableElimination._get_elimination_order for an explicit order (all names in the model) and for None:
    an accepted explicit order covers exactly V - Q - keys(e); an order touching Q or the evidence, or not covering
    that set, is rejected with ValueError; None yields exactly that set."""
    file = "pgmpy/inference/ExactInference.py"
    qual = "VariableElimination._get_elimination_order"

    def variants(self, ex):
        from vf.pyvc.engine import DictV
        for ol in ("list", "None"):
            for el in ("dict", "None"):
                model = new_graph("BayesianNetwork", "m")
                this = Obj("VariableElimination", {"model": model, "variables": Coll("list", Atom, model.fields["@nodes"], nodup=True)})
                order = atom_list("order", "list") if ol == "list" else NONE
                ev = DictV(Atom, "scalar", z3.Const("ev_dom", set_sort(Atom)), z3.Const("ev_val", z3.ArraySort(Atom, Atom)), vsort=Atom) if el == "dict" else NONE
                yield f"order={ol},evidence={el}", {"self": this, "variables": atom_list("Q", "list"), "evidence": ev,
                                                    "elimination_order": order, "show_progress": Scalar(z3.BoolVal(False))}, {}

    @staticmethod
    def sets(args):
        V = args["self"].fields["model"].fields["@nodes"]
        Q = args["variables"].mem
        ev = args["evidence"]
        Ev = ev.dom if not isinstance(ev, type(NONE)) else empty_set(Atom)
        x = fresh("x", Atom)
        return V, Q, Ev, z3.Lambda([x], z3.And(V[x], z3.Not(Q[x]), z3.Not(Ev[x])))

    def pre(self, ex, st, args):
        g = args["self"].fields["model"]
        x = fresh("x", Atom)
        req = [wf_graph(g)]
        if isinstance(args["elimination_order"], Coll):
            req.append(z3.ForAll([x], z3.Implies(args["elimination_order"].mem[x], N_(g, x))))
        return z3.And(*req)

    def raises(self, ex, st, args):
        if not isinstance(args["elimination_order"], Coll):
            return {}
        V, Q, Ev, T = self.sets(args)
        O = args["elimination_order"].mem
        x = fresh("x", Atom)
        touches = z3.Exists([x], z3.And(z3.Or(Q[x], Ev[x]), O[x]))
        return {"ValueError": z3.Or(touches, z3.Not(z3.ForAll([x], O[x] == T[x])))}

    def post(self, ex, st, args, old, result):
        if not isinstance(result, Coll):
            return z3.BoolVal(False)
        V, Q, Ev, T = self.sets(args)
        x = fresh("x", Atom)
        mem = result.mem if result.mem is not None else empty_set(Atom)
        return z3.ForAll([x], mem[x] == T[x])


register(VEGetEliminationOrder())


# --------------------------------------------------------------------------------------------------- query pruning
class PruneBayesianModel(Contract):
    pure = True   # does not modify any pre-existing object
    """Inference._prune_bayesian_model (every exact query on a Bayesian network starts here), graph part:
    D   = evidence variables + every node d-connected to a query variable given the evidence (d-connection = the relation of
          DAG.active_trail_nodes' contract, latents included),
    bn  = the sub-DAG induced by the ancestors-or-self, inside G[D], of the query and evidence variables,
    the evidence is handed back unchanged, the engine's model is not modified.
    (CPD re-attachment is opaque here; that the pruned network has the same posterior is the algebraic part, bounded.)"""
    file = "pgmpy/inference/base.py"
    qual = "Inference._prune_bayesian_model"

    def variants(self, ex):
        for vl in ("list", "tuple"):
            for el in ("None", "dict"):
                g = new_graph("BayesianNetwork", "model")
                g.fields["__opaque__"] = {"get_cpds": OpaqueFn("get_cpds", Opaque, pure=True)}
                this = Obj("Inference", {"model": g})
                ev = NONE if el == "None" else DictV(Atom, "scalar", z3.Const("ev_dom", set_sort(Atom)), z3.Const("ev_val", z3.ArraySort(Atom, Atom)), vsort=Atom)
                yield f"variables={vl},evidence={el}", {"self": this, "variables": atom_list("qvars", vl), "evidence": ev}, {}

    @staticmethod
    def Z(args):
        e = args["evidence"]
        return e.dom if isinstance(e, DictV) and e.dom is not None else empty_set(Atom)

    def Q(self, args, old):
        """query variables: the given ones, all nodes when none are given"""
        from vf.pyvc.engine import nonempty
        q = args["variables"].mem
        x = fresh("x", Atom)
        return z3.Lambda([x], z3.If(nonempty(q, Atom), q[x], old["@nodes"][x]))

    def pre(self, ex, st, args):
        g = args["self"].fields["model"]
        x = fresh("x", Atom)
        # weakest precondition found by the proof: with no query variable *and* an empty model `set.union(*[])` raises TypeError
        return z3.And(wf_graph(g), z3.ForAll([x], z3.Implies(args["variables"].mem[x], N_(g, x))),
                      z3.ForAll([x], z3.Implies(self.Z(args)[x], N_(g, x))),
                      z3.Or(z3.Exists([x], args["variables"].mem[x]), z3.Exists([x], N_(g, x))))

    def snapshot(self, ex, st, args):
        from .common import graph_snapshot
        return graph_snapshot(args["self"].fields["model"])

    def post(self, ex, st, args, old, result):
        from vf.pyvc.engine import TupleV
        from vf.pyvc.lib import RelSort
        from .common import graph_unchanged
        from . import c08
        if not (isinstance(result, TupleV) and len(result.items) == 2 and isinstance(result.items[0], Obj)):
            return z3.BoolVal(False)
        bn, ev2 = result.items
        E, Z, Q = old["@E"], self.Z(args), self.Q(args, old)
        atn = c08.REGISTRY_ATN
        th = atn.theory(ex, {"observed": Coll("list", Atom, Z)}, E)
        s, n, a, b, t = (fresh(k, Atom) for k in "snabt")
        D = z3.Lambda([n], z3.Or(Z[n], z3.Exists([s], z3.And(Q[s], z3.Not(Z[n]), z3.Or(th.R(s, n, c08.UP), th.R(s, n, c08.DOWN))))))
        Esub = fresh("Esub", RelSort)   # ghost: the edge relation of G[D]
        ex.axioms.append(z3.ForAll([a, b], Esub[a, b] == z3.And(E[a, b], D[a], D[b])))
        pth = ex.lib.theory(ex)
        pth.watch_rel(Esub)
        P = pth.path(Esub)
        keep = z3.Lambda([n], z3.And(D[n], old["@nodes"][n], z3.Exists([t], z3.And(z3.Or(Q[t], Z[t]), D[t], P(n, t)))))
        out = {"nodes": z3.ForAll([n], bn.fields["@nodes"][n] == keep[n]),
               "edges": z3.ForAll([a, b], bn.fields["@E"][a, b] == z3.And(E[a, b], keep[a], keep[b])),
               "model-untouched": graph_unchanged(args["self"].fields["model"], old)}
        if isinstance(args["evidence"], DictV):
            if not isinstance(ev2, DictV) or ev2.dom is None:
                return z3.BoolVal(False)
            out["evidence-kept"] = z3.ForAll([n], z3.And(ev2.dom[n] == Z[n], z3.Implies(Z[n], ev2.val[n] == args["evidence"].val[n])))
        return out


    # loop 0: for var in bn.nodes()  - re-attaches CPDs (opaque objects); no graph is written
    def inv0(self, ex, st, args, old, ghost):
        from .common import graph_unchanged
        return graph_unchanged(args["self"].fields["model"], old)



PruneBayesianModel.invariants = property(lambda self: {0: self.inv0})
register(PruneBayesianModel())
