"""Shared pieces of the sidecar contracts: class table, symbolic parameters, frames."""
import z3

from vf.pyvc.engine import (Atom, B, I, Coll, Contract, DictV, NONE, Obj, Scalar, TupleV, empty_set, fresh, register,
                            set_sort, seteq, subset, tuple_sort)
from vf.pyvc.lib import E_, N_, PairAA, new_graph, wf_graph

CLASSES = {
    "DAG": {"mro": ["DAG", "DiGraph"], "file": "pgmpy/base/DAG.py"},
    "PDAG": {"mro": ["PDAG", "DiGraph"], "file": "pgmpy/base/DAG.py"},
    "BayesianNetwork": {"mro": ["BayesianNetwork", "DAG", "DiGraph"], "file": "pgmpy/models/BayesianNetwork.py"},
    "UndirectedGraph": {"mro": ["UndirectedGraph", "Graph"], "file": "pgmpy/base/UndirectedGraph.py"},
    "Independencies": {"mro": ["Independencies"], "file": "pgmpy/independencies/Independencies.py"},
    "IndependenceAssertion": {"mro": ["IndependenceAssertion"], "file": "pgmpy/independencies/Independencies.py"},
    "DynamicBayesianNetwork": {"mro": ["DynamicBayesianNetwork", "DAG", "DiGraph"], "file": "pgmpy/models/DynamicBayesianNetwork.py"},
    "MarkovNetwork": {"mro": ["MarkovNetwork", "UndirectedGraph", "Graph"], "file": "pgmpy/models/MarkovNetwork.py"},
    "FactorGraph": {"mro": ["FactorGraph", "UndirectedGraph", "Graph"], "file": "pgmpy/models/FactorGraph.py"},
    "ClusterGraph": {"mro": ["ClusterGraph", "UndirectedGraph", "Graph"], "file": "pgmpy/models/ClusterGraph.py"},
    "JunctionTree": {"mro": ["JunctionTree", "ClusterGraph", "UndirectedGraph", "Graph"], "file": "pgmpy/models/JunctionTree.py"},
    "Graph": {"mro": ["Graph"], "file": None},
    "DiGraph": {"mro": ["DiGraph"], "file": None},
}
for _c in CLASSES.values():
    _c.setdefault("file", None)
CLASSES["DAG"]["mro_files"] = None


def atom(name, pytype=None):
    return Scalar(z3.Const(name, Atom), pytype)


def atom_list(name, kind="list"):
    return Coll(kind, Atom, z3.Const(name, set_sort(Atom)), nodup=(kind in ("set", "frozenset")))


def mem_or_empty(c, esort=Atom):
    if isinstance(c, Coll):
        return c.mem if c.mem is not None else empty_set(esort)
    raise TypeError(c)


def graph_snapshot(g):
    return {"@E": g.fields["@E"], "@nodes": g.fields["@nodes"], "latents": g.fields["latents"].mem if "latents" in g.fields else None}


def graph_unchanged(g, old):
    a, b = fresh("a", Atom), fresh("b", Atom)
    f = [z3.ForAll([a, b], g.fields["@E"][a, b] == old["@E"][a, b]), z3.ForAll([a], g.fields["@nodes"][a] == old["@nodes"][a])]
    if old.get("latents") is not None:
        f.append(z3.ForAll([a], g.fields["latents"].mem[a] == old["latents"][a]))
    return z3.And(*f)


def havoc_graph(g, tag="hv", latents=True):
    """fresh abstract state for a graph object that a callee may have changed (same object identity)"""
    from vf.pyvc.lib import RelSort
    g.fields["@nodes"] = fresh(tag + "_nodes", set_sort(Atom))
    g.fields["@E"] = fresh(tag + "_E", RelSort)
    if latents and "latents" in g.fields and g.fields["latents"].mem is not None:
        g.fields["latents"].mem = fresh(tag + "_lat", set_sort(Atom))
        g.fields["latents"].items = None
