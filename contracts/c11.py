"""Sidecar contracts for C11 (score-based search): HillClimbSearch._legal_operations.

legal(G, op) from the statement / DESIGN §6 C11 (G acyclic, X != Y variables):
  ("+",(X,Y))    X,Y non-adjacent, no path Y ~> X, op not tabu, (X,Y) not black, (X,Y) white, |Pa(Y)|+1 <= max_indegree
  ("-",(X,Y))    X -> Y an edge, op not tabu, (X,Y) not fixed
  ("flip",(X,Y)) X -> Y an edge, no other directed path X ~> Y, op and ("flip",(Y,X)) not tabu, (X,Y) not fixed,
                 (Y,X) not black, (Y,X) white, |Pa(X)|+1 <= max_indegree
The generator must yield exactly {(op, delta(op)) | legal(G, op)}: nothing illegal is offered (soundness: applying an
offered op keeps G acyclic and inside the lists) and every legal op is offered (needed for the local-optimum claim).
`score`, `structure_score` are uninterpreted pure functions (of the parent *set*).
"""
import z3

from vf.pyvc.engine import Atom, B, I, R, Opaque, Coll, Contract, NONE, Obj, OpaqueFn, Scalar, empty_set, fresh, register, set_sort, str_const, tuple_sort
from vf.pyvc.lib import N_, PairAA, new_graph, wf_graph

from .common import graph_snapshot, graph_unchanged

OpT = tuple_sort([Atom, PairAA])          # ("+", (X, Y))
YieldT = tuple_sort([OpT, R])             # (operation, score_delta)
PLUS, MINUS, FLIP = str_const("+"), str_const("-"), str_const("flip")


# trigger function (ghost, identically true): `complete.*` below are instantiated exactly where a candidate move is named
Cand = z3.Function("c11_candidate", Atom, Atom, Atom, R, B)


def cand_axiom(ex):
    if not getattr(ex, "_c11_cand", None) is ex.axioms:
        X, Y, k, d = fresh("X", Atom), fresh("Y", Atom), fresh("k", Atom), fresh("d", R)
        ex.axioms.append(z3.ForAll([X, Y, k, d], Cand(X, Y, k, d)))
        ex._c11_cand = ex.axioms


class LegalOperations(Contract):
    pure = True   # does not modify any pre-existing object
    file = "pgmpy/estimators/HillClimbSearch.py"
    qual = "HillClimbSearch._legal_operations"

    def variants(self, ex):
        g = new_graph("DAG", "g")
        this = Obj("HillClimbSearch", {"variables": Coll("list", Atom, z3.Const("variables", set_sort(Atom)), nodup=True)})
        args = {
            "self": this, "model": g,
            "score": OpaqueFn("score", R), "structure_score": OpaqueFn("structure_score", R),
            "tabu_list": Coll("list", OpT, z3.Const("tabu", set_sort(OpT)), nodup=False),
            "max_indegree": Scalar(z3.Const("max_indegree", I)),
            "black_list": Coll("set", PairAA, z3.Const("black", set_sort(PairAA))),
            "white_list": Coll("set", PairAA, z3.Const("white", set_sort(PairAA))),
            "fixed_edges": Coll("set", PairAA, z3.Const("fixed", set_sort(PairAA))),
        }
        yield "any", args, {}

    def pre(self, ex, st, args):
        g = args["model"]
        th = ex.lib.theory(ex)
        x = fresh("x", Atom)
        V = args["self"].fields["variables"].mem
        return z3.And(wf_graph(g), th.acyclic(g.fields["@E"]), z3.ForAll([x], V[x] == N_(g, x)))

    def snapshot(self, ex, st, args):
        return graph_snapshot(args["model"])

    def make_result(self, ex, st, args):
        return Coll("iter", YieldT, fresh("legal_ops", set_sort(YieldT)))

    def post(self, ex, st, args, old, result):
        if not isinstance(result, Coll) or result.mem is None:
            return z3.BoolVal(False)
        g = args["model"]
        tabu, black, white, fixed = (args[k].mem if args[k].mem is not None else empty_set(OpT if k == "tabu_list" else PairAA)
                                     for k in ("tabu_list", "black_list", "white_list", "fixed_edges"))
        L = legal_parts(ex, st, old["@E"], args["self"].fields["variables"].mem, tabu, black, white, fixed, args["max_indegree"].z,
                        args["score"], args["structure_score"])
        Y_ = result.mem
        q, t, kind = L["q"], L["t"], L["kind"]
        return {
            "sound.kinds": z3.ForAll(q, z3.Implies(Y_[t], z3.Or(kind == PLUS, kind == MINUS, kind == FLIP))),
            "sound.add.legal": z3.ForAll(q, z3.Implies(z3.And(Y_[t], kind == PLUS), L["add_legal"])),
            "sound.add.delta": z3.ForAll(q, z3.Implies(z3.And(Y_[t], kind == PLUS), L["add_delta"])),
            "sound.remove.legal": z3.ForAll(q, z3.Implies(z3.And(Y_[t], kind == MINUS), L["rem_legal"])),
            "sound.remove.delta": z3.ForAll(q, z3.Implies(z3.And(Y_[t], kind == MINUS), L["rem_delta"])),
            "sound.flip.legal": z3.ForAll(q, z3.Implies(z3.And(Y_[t], kind == FLIP), L["flip_legal"])),
            "sound.flip.delta": z3.ForAll(q, z3.Implies(z3.And(Y_[t], kind == FLIP), L["flip_delta"])),
            "complete.add": z3.ForAll(q, z3.Implies(z3.And(kind == PLUS, L["add_legal"], L["add_delta"]), Y_[t]), patterns=[Cand(*q)]),
            "complete.remove": z3.ForAll(q, z3.Implies(z3.And(kind == MINUS, L["rem_legal"], L["rem_delta"]), Y_[t]), patterns=[Cand(*q)]),
            "complete.flip": z3.ForAll(q, z3.Implies(z3.And(kind == FLIP, L["flip_legal"], L["flip_delta"]), Y_[t]), patterns=[Cand(*q)]),
            "frame": graph_unchanged(g, old),
        }


def legal_parts(ex, st, E, V, tabu, black, white, fixed, mx, score, structure_score):
    """the C11 move relation over the edge relation E: legality and score delta of ("+"|"-"|"flip", (X, Y)), as formulas over the
    bound variables q = [X, Y, kind, delta];  t = ((kind, (X, Y)), delta)"""
    from vf.pyvc.engine import BoundMethod
    cand_axiom(ex)

    def opaque(f):   # `score.local_score` of an object whose methods are declared opaque
        if isinstance(f, BoundMethod) and isinstance(f.recv, Obj) and f.name in f.recv.fields.get("__opaque__", {}):
            return f.recv.fields["__opaque__"][f.name]
        return f
    score, structure_score = opaque(score), opaque(structure_score)
    P = ex.lib.theory(ex).path(E)
    a = z3.Const("pa!bound", Atom)   # one bound name: the parent-set lambdas of two calls are then the same terms
    pa = lambda n: z3.Lambda([a], E[a, n])
    pa_plus = lambda n, x: z3.Lambda([a], z3.Or(E[a, n], a == x))
    pa_minus = lambda n, x: z3.Lambda([a], z3.And(E[a, n], a != x))
    card = lambda S: ex.lib.card(ex, Coll("set", Atom, S), st)

    def sc(n, S):
        return ex.call_opaque(score, [Scalar(n), Coll("list", Atom, S)], {}, st).z

    def ss(tag):
        return ex.call_opaque(structure_score, [Scalar(tag)], {}, st).z

    X, Y, w = fresh("X", Atom), fresh("Y", Atom), fresh("w", Atom)
    kind, delta = fresh("kind", Atom), fresh("delta", R)
    op = OpT.mk(kind, PairAA.mk(X, Y))
    out = {"q": [X, Y, kind, delta], "t": YieldT.mk(op, delta), "kind": kind, "delta": delta, "X": X, "Y": Y}
    out["add_legal"] = z3.And(V[X], V[Y], X != Y, z3.Not(E[X, Y]), z3.Not(E[Y, X]), z3.Not(P(Y, X)),
                              z3.Not(tabu[op]), z3.Not(black[PairAA.mk(X, Y)]), white[PairAA.mk(X, Y)], card(pa(Y)) + 1 <= mx)
    out["add_delta"] = delta == sc(Y, pa_plus(Y, X)) - sc(Y, pa(Y)) + ss(PLUS)
    out["rem_legal"] = z3.And(E[X, Y], z3.Not(tabu[op]), z3.Not(fixed[PairAA.mk(X, Y)]))
    out["rem_delta"] = delta == sc(Y, pa_minus(Y, X)) - sc(Y, pa(Y)) + ss(MINUS)
    other_path = z3.Exists([w], z3.And(E[X, w], w != Y, P(w, Y)))
    out["flip_legal"] = z3.And(E[X, Y], z3.Not(other_path), z3.Not(tabu[op]), z3.Not(tabu[OpT.mk(FLIP, PairAA.mk(Y, X))]),
                               z3.Not(fixed[PairAA.mk(X, Y)]), z3.Not(black[PairAA.mk(Y, X)]), white[PairAA.mk(Y, X)],
                               card(pa(X)) + 1 <= mx)
    out["flip_delta"] = delta == sc(X, pa_plus(X, Y)) + sc(Y, pa_minus(Y, X)) - sc(X, pa(X)) - sc(Y, pa(Y)) + ss(FLIP)
    return out


register(LegalOperations())


class HillClimbEstimate(Contract):
    """HillClimbSearch.estimate, structure-score object given, cache off, explicit max_indegree, progress bar off (the other
    argument forms differ only in set-up code that is outside the modelled subset and is covered by the bounded groups).
      * the result is a DAG on exactly the data's variables containing every fixed edge;
      * with tabu_length == 0: unless all int(max_iter) iterations were used, no legal single-edge addition, deletion or reversal
        (legal as in _legal_operations with an empty tabu list) improves the score by epsilon or more."""
    file = "pgmpy/estimators/HillClimbSearch.py"
    qual = "HillClimbSearch.estimate"
    edge_lemmas = True   # the networkx add_edge / remove_edge models add their path lemmas (instances of the induction schema)

    def variants(self, ex):
        for sd in ("none", "dag"):
            for tl in ("zero", "any"):
                this = Obj("HillClimbSearch", {"variables": Coll("list", Atom, z3.Const("variables", set_sort(Atom)), nodup=True),
                                               "use_cache": Scalar(z3.BoolVal(False)), "data": Scalar(z3.Const("data", Opaque))})
                score = Obj("StructureScore", {})
                score.fields["__opaque__"] = {"local_score": OpaqueFn("score", R), "structure_prior_ratio": OpaqueFn("structure_score", R)}
                args = {
                    "self": this, "scoring_method": score,
                    "start_dag": NONE if sd == "none" else new_graph("DAG", "g0"),
                    "fixed_edges": Coll("set", PairAA, z3.Const("fixed", set_sort(PairAA))),
                    "tabu_length": Scalar(z3.IntVal(0) if tl == "zero" else z3.Const("tabu_length", I)),
                    "max_indegree": Scalar(z3.Const("max_indegree", I)),
                    "black_list": Coll("set", PairAA, z3.Const("black", set_sort(PairAA))),
                    "white_list": Coll("set", PairAA, z3.Const("white", set_sort(PairAA))),
                    "epsilon": Scalar(z3.Const("epsilon", R)),
                    "max_iter": Scalar(z3.Const("max_iter", I)),
                    "show_progress": Scalar(z3.BoolVal(False)),
                }
                yield f"start_dag={sd},tabu_length={tl}", args, {}

    def pre(self, ex, st, args):
        parts = []
        g = args["start_dag"]
        if isinstance(g, Obj):
            parts += [wf_graph(g), ex.lib.theory(ex).acyclic(g.fields["@E"])]
        if args["tabu_length"].z.decl().kind() == z3.Z3_OP_UNINTERPRETED:
            parts.append(args["tabu_length"].z >= 0)
        # fixed edges join variables of the data set (an unknown endpoint would be added to the graph as a new node)
        V, fixed = args["self"].fields["variables"].mem, args["fixed_edges"].mem
        a, b = fresh("a", Atom), fresh("b", Atom)
        parts.append(z3.ForAll([a, b], z3.Implies(fixed[PairAA.mk(a, b)], z3.And(V[a], V[b]))))
        return z3.And(*parts) if parts else z3.BoolVal(True)

    def snapshot(self, ex, st, args):
        g = args["start_dag"]
        return graph_snapshot(g) if isinstance(g, Obj) else {}

    def raises(self, ex, st, args):
        # rejected inputs (state untouched): start_dag over other variables; fixed edges that close a directed cycle
        g = args["start_dag"]
        V = args["self"].fields["variables"].mem
        fixed = args["fixed_edges"].mem
        x, a, b = fresh("x", Atom), fresh("a", Atom), fresh("b", Atom)
        th = ex.lib.theory(ex)
        from vf.pyvc.lib import RelSort
        fin = fresh("Estart", RelSort)
        none = fresh("Enone", RelSort)
        if not isinstance(g, Obj):
            ex.axioms.append(z3.ForAll([a, b], z3.Not(none[a, b])))
        E0 = g.fields["@E"] if isinstance(g, Obj) else none
        ex.axioms.append(z3.ForAll([a, b], fin[a, b] == z3.Or(E0[a, b], fixed[PairAA.mk(a, b)])))
        th.watch_rel(fin)
        conds = [z3.Not(th.acyclic(fin))]
        if isinstance(g, Obj):
            conds.append(z3.Exists([x], V[x] != N_(g, x)))
        args["self"]._Estart = fin
        return {"ValueError": z3.Or(*conds)}

    def on_raise(self, ex, st, args, old, exc):
        g = args["start_dag"]
        return graph_unchanged(g, old) if isinstance(g, Obj) else z3.BoolVal(True)

    def common(self, ex, st, args, cm, fixed):
        """the graph-shape part shared by invariant and postcondition"""
        th = ex.lib.theory(ex)
        V = args["self"].fields["variables"].mem
        x, a, b = fresh("x", Atom), fresh("a", Atom), fresh("b", Atom)
        return [wf_graph(cm), th.acyclic(cm.fields["@E"]), z3.ForAll([x], V[x] == N_(cm, x)),
                z3.ForAll([a, b], z3.Implies(fixed[PairAA.mk(a, b)], cm.fields["@E"][a, b]))]

    # loop 0: for _ in iteration
    def inv0(self, ex, st, args, old, ghost):
        cm, tabu = st.env["current_model"], st.env["tabu_list"]
        parts = self.common(ex, st, args, cm, st.env["fixed_edges"].mem)
        if tabu.mem is not None and z3.is_int_value(args["tabu_length"].z) and args["tabu_length"].z.as_long() == 0:
            o = fresh("o", tabu.esort)
            parts.append(z3.ForAll([o], z3.Not(tabu.mem[o])))   # a deque of maxlen 0 stays empty
        g = args["start_dag"]
        if isinstance(g, Obj):
            parts.append(graph_unchanged(g, old))
            parts.append(z3.BoolVal(cm is not g))
        return z3.And(*parts)

    invariants = property(lambda self: {0: self.inv0})

    def post(self, ex, st, args, old, result):
        if not isinstance(result, Obj):
            return z3.BoolVal(False)
        fixed = args["fixed_edges"].mem
        sh = self.common(ex, st, args, result, fixed)
        out = {"result.wf": sh[0], "result.acyclic": sh[1], "result.nodes-are-the-variables": sh[2], "result.keeps-fixed-edges": sh[3]}
        g = args["start_dag"]
        if isinstance(g, Obj):
            out["start_dag-untouched"] = z3.And(graph_unchanged(g, old), z3.BoolVal(result is not g))
        if z3.is_int_value(args["tabu_length"].z) and args["tabu_length"].z.as_long() == 0 and st.ghost.get("break0"):
            # the loop was left through `break` (not by exhausting max_iter): local optimum w.r.t. the C11 move relation, empty tabu list
            score = args["scoring_method"].fields["__opaque__"]
            L = legal_parts(ex, st, result.fields["@E"], args["self"].fields["variables"].mem, empty_set(OpT), args["black_list"].mem,
                            args["white_list"].mem, fixed, args["max_indegree"].z, score["local_score"], score["structure_prior_ratio"])
            eps = args["epsilon"].z
            q, delta = L["q"], L["delta"]
            c = Cand(*q)   # identically true (axiom); names the candidate for the instantiation of the callee's completeness clauses
            out["local-optimum.add"] = z3.ForAll(q, z3.Implies(z3.And(c, L["kind"] == PLUS, L["add_legal"], L["add_delta"]), delta < eps))
            out["local-optimum.remove"] = z3.ForAll(q, z3.Implies(z3.And(c, L["kind"] == MINUS, L["rem_legal"], L["rem_delta"]), delta < eps))
            out["local-optimum.flip"] = z3.ForAll(q, z3.Implies(z3.And(c, L["kind"] == FLIP, L["flip_legal"], L["flip_delta"]), delta < eps))
        return out


register(HillClimbEstimate())
