"""Sidecar contracts for C11 (score-based search): HillClimbSearch._legal_operations.

legal(G, op) from the statement / DESIGN §6 C11 (G acyclic, X != Y variables):
  ("+",(X,Y))    X,Y non-adjacent, no path Y ~> X, op not tabu, (X,Y) not black, (X,Y) white, |Pa(Y)|+1 <= max_indegree
  ("-",(X,Y))    X -> Y an edge, op not tabu, (X,Y) not fixed
  ("flip",(X,Y)) X -> Y an edge, no other directed path X ~> Y, op and ("flip",(Y,X)) not tabu, (X,Y) not fixed,
                 (Y,X) not black, (Y,X) white, |Pa(X)|+1 <= max_indegree
The generator must yield exactly {(op, delta(op)) | legal(G, op)}: nothing illegal is offered (soundness: applying an
offered op keeps G acyclic and inside the lists) and every legal op is offered (needed for the local-optimum claim).
`score`, `structure_score` are uninterpreted pure functions (of the parent *set*).
"""
import z3

from vf.pyvc.engine import Atom, B, I, R, Coll, Contract, NONE, Obj, OpaqueFn, Scalar, empty_set, fresh, register, set_sort, str_const, tuple_sort
from vf.pyvc.lib import N_, PairAA, new_graph, wf_graph

from .common import graph_snapshot, graph_unchanged

OpT = tuple_sort([Atom, PairAA])          # ("+", (X, Y))
YieldT = tuple_sort([OpT, R])             # (operation, score_delta)
PLUS, MINUS, FLIP = str_const("+"), str_const("-"), str_const("flip")


class LegalOperations(Contract):
    file = "pgmpy/estimators/HillClimbSearch.py"
    qual = "HillClimbSearch._legal_operations"

    def variants(self, ex):
        g = new_graph("DAG", "g")
        this = Obj("HillClimbSearch", {"variables": Coll("list", Atom, z3.Const("variables", set_sort(Atom)), nodup=True)})
        args = {
            "self": this, "model": g,
            "score": OpaqueFn("score", R), "structure_score": OpaqueFn("structure_score", R),
            "tabu_list": Coll("list", OpT, z3.Const("tabu", set_sort(OpT)), nodup=False),
            "max_indegree": Scalar(z3.Const("max_indegree", I)),
            "black_list": Coll("set", PairAA, z3.Const("black", set_sort(PairAA))),
            "white_list": Coll("set", PairAA, z3.Const("white", set_sort(PairAA))),
            "fixed_edges": Coll("set", PairAA, z3.Const("fixed", set_sort(PairAA))),
        }
        yield "any", args, {}

    def pre(self, ex, st, args):
        g = args["model"]
        th = ex.lib.theory(ex)
        x = fresh("x", Atom)
        V = args["self"].fields["variables"].mem
        return z3.And(wf_graph(g), th.acyclic(g.fields["@E"]), z3.ForAll([x], V[x] == N_(g, x)))

    def snapshot(self, ex, st, args):
        return graph_snapshot(args["model"])

    def post(self, ex, st, args, old, result):
        if not isinstance(result, Coll) or result.mem is None:
            return z3.BoolVal(False)
        g = args["model"]
        E = old["@E"]
        P = ex.lib.theory(ex).path(E)
        V = args["self"].fields["variables"].mem
        tabu, black, white, fixed = (args[k].mem for k in ("tabu_list", "black_list", "white_list", "fixed_edges"))
        mx = args["max_indegree"].z
        a = fresh("a", Atom)
        pa = lambda n: z3.Lambda([a], E[a, n])
        pa_plus = lambda n, x: z3.Lambda([a], z3.Or(E[a, n], a == x))
        pa_minus = lambda n, x: z3.Lambda([a], z3.And(E[a, n], a != x))
        card = lambda S: ex.lib.card(ex, Coll("set", Atom, S), st)

        def sc(n, S):
            return ex.call_opaque(args["score"], [Scalar(n), Coll("list", Atom, S)], {}, st).z

        def ss(tag):
            return ex.call_opaque(args["structure_score"], [Scalar(tag)], {}, st).z

        X, Y, w = fresh("X", Atom), fresh("Y", Atom), fresh("w", Atom)
        kind, delta = fresh("kind", Atom), fresh("delta", R)
        op = OpT.mk(kind, PairAA.mk(X, Y))
        t = YieldT.mk(op, delta)
        Y_ = result.mem
        add_legal = z3.And(V[X], V[Y], X != Y, z3.Not(E[X, Y]), z3.Not(E[Y, X]), z3.Not(P(Y, X)),
                           z3.Not(tabu[op]), z3.Not(black[PairAA.mk(X, Y)]), white[PairAA.mk(X, Y)], card(pa(Y)) + 1 <= mx)
        add_delta = delta == sc(Y, pa_plus(Y, X)) - sc(Y, pa(Y)) + ss(PLUS)
        rem_legal = z3.And(E[X, Y], z3.Not(tabu[op]), z3.Not(fixed[PairAA.mk(X, Y)]))
        rem_delta = delta == sc(Y, pa_minus(Y, X)) - sc(Y, pa(Y)) + ss(MINUS)
        other_path = z3.Exists([w], z3.And(E[X, w], w != Y, P(w, Y)))
        flip_legal = z3.And(E[X, Y], z3.Not(other_path), z3.Not(tabu[op]), z3.Not(tabu[OpT.mk(FLIP, PairAA.mk(Y, X))]),
                            z3.Not(fixed[PairAA.mk(X, Y)]), z3.Not(black[PairAA.mk(Y, X)]), white[PairAA.mk(Y, X)],
                            card(pa(X)) + 1 <= mx)
        flip_delta = delta == sc(X, pa_plus(X, Y)) + sc(Y, pa_minus(Y, X)) - sc(X, pa(X)) - sc(Y, pa(Y)) + ss(FLIP)
        q = [X, Y, kind, delta]
        return {
            "sound.kinds": z3.ForAll(q, z3.Implies(Y_[t], z3.Or(kind == PLUS, kind == MINUS, kind == FLIP))),
            "sound.add.legal": z3.ForAll(q, z3.Implies(z3.And(Y_[t], kind == PLUS), add_legal)),
            "sound.add.delta": z3.ForAll(q, z3.Implies(z3.And(Y_[t], kind == PLUS), add_delta)),
            "sound.remove.legal": z3.ForAll(q, z3.Implies(z3.And(Y_[t], kind == MINUS), rem_legal)),
            "sound.remove.delta": z3.ForAll(q, z3.Implies(z3.And(Y_[t], kind == MINUS), rem_delta)),
            "sound.flip.legal": z3.ForAll(q, z3.Implies(z3.And(Y_[t], kind == FLIP), flip_legal)),
            "sound.flip.delta": z3.ForAll(q, z3.Implies(z3.And(Y_[t], kind == FLIP), flip_delta)),
            "complete.add": z3.ForAll(q, z3.Implies(z3.And(kind == PLUS, add_legal, add_delta), Y_[t])),
            "complete.remove": z3.ForAll(q, z3.Implies(z3.And(kind == MINUS, rem_legal, rem_delta), Y_[t])),
            "complete.flip": z3.ForAll(q, z3.Implies(z3.And(kind == FLIP, flip_legal, flip_delta), Y_[t])),
            "frame": graph_unchanged(g, old),
        }


register(LegalOperations())
