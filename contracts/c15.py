"""Sidecar contracts for C15 (structural consistency under any edit history).

Inductive invariant Inv(model): wf_graph /\\ acyclic(E).  Each editing operation is proved
{Inv} op {Inv} and {Inv} op-that-raises {state unchanged}; all finite histories follow by induction.
acyclic(E)  <=>  forall a,b. E(a,b) => not Path_E(b,a)     (Path reflexive, so self loops are excluded)
"""
import z3

from vf.pyvc.engine import Atom, B, Opaque, Coll, Contract, NONE, Obj, OpaqueFn, Scalar, empty_set, fresh, register, set_sort
from vf.pyvc.lib import N_, new_graph, wf_graph

from .common import atom, graph_snapshot, graph_unchanged


def new_bn(tag="m"):
    g = new_graph("BayesianNetwork", tag)
    return g


class BNAddEdge(Contract):
    file = "pgmpy/models/BayesianNetwork.py"
    qual = "BayesianNetwork.add_edge"

    def variants(self, ex):
        g = new_bn()
        yield "any", {"self": g, "u": atom("u"), "v": atom("v")}, {}

    def pre(self, ex, st, args):
        g = args["self"]
        th = ex.lib.theory(ex)
        return z3.And(wf_graph(g), th.acyclic(g.fields["@E"]))

    def snapshot(self, ex, st, args):
        return graph_snapshot(args["self"])

    def raises(self, ex, st, args):
        g, u, v = args["self"], args["u"].z, args["v"].z
        P = ex.lib.theory(ex).path(g.fields["@E"])
        return {"ValueError": z3.Or(u == v, z3.And(N_(g, u), N_(g, v), P(v, u)))}

    def on_raise(self, ex, st, args, old, exc):
        return graph_unchanged(args["self"], old)

    def post(self, ex, st, args, old, result):
        g, u, v = args["self"], args["u"].z, args["v"].z
        th = ex.lib.theory(ex)
        E0, E1 = old["@E"], g.fields["@E"]
        P0 = th.path(E0)
        a, b = fresh("a", Atom), fresh("b", Atom)
        # ghost lemmas (leastness instances, each a theorem of the least fix-point):
        #  L1  Path_{E+(u,v)}(a,b) => Path_E(a,b) \/ (Path_E(a,u) /\ Path_E(v,b))
        st.assume(th.induct_rel(E1, lambda x, y: z3.Or(P0(x, y), z3.And(P0(x, u), P0(v, y)))))
        #  a name that is not a node has no outgoing / incoming path
        st.assume(th.induct_forward(E0, z3.Store(empty_set(Atom), v, True)))
        st.assume(th.induct_backward(E0, z3.Store(empty_set(Atom), u, True)))
        return z3.And(
            z3.ForAll([a, b], E1[a, b] == z3.Or(E0[a, b], z3.And(a == u, b == v))),
            z3.ForAll([a], g.fields["@nodes"][a] == z3.Or(old["@nodes"][a], a == u, a == v)),
            z3.ForAll([a], g.fields["latents"].mem[a] == old["latents"][a]),
            wf_graph(g),
            th.acyclic(E1),
        )


register(BNAddEdge())


class DAGDo(Contract):
    """C13: graph surgery removes exactly the incoming edges of the intervened nodes."""
    file = "pgmpy/base/DAG.py"
    qual = "DAG.do"

    def variants(self, ex):
        from .common import atom_list

        for nl, nodes in (("single-str", atom("x", "str")), ("list", atom_list("xs", "list")), ("set", atom_list("xs", "set")),
                          ("tuple", atom_list("xs", "tuple"))):
            for inplace in (True, False):
                g = new_graph("DAG", "g")
                yield f"nodes={nl},inplace={inplace}", {"self": g, "nodes": nodes, "inplace": Scalar(z3.BoolVal(inplace))}, {}

    @staticmethod
    def X(args):
        n = args["nodes"]
        if isinstance(n, Scalar):
            return z3.Store(empty_set(Atom), n.z, True)
        return n.mem if n.mem is not None else empty_set(Atom)

    def pre(self, ex, st, args):
        return wf_graph(args["self"])

    def snapshot(self, ex, st, args):
        return graph_snapshot(args["self"])

    def raises(self, ex, st, args):
        x = fresh("x", Atom)
        return {"ValueError": z3.Exists([x], z3.And(self.X(args)[x], z3.Not(N_(args["self"], x))))}

    def on_raise(self, ex, st, args, old, exc):
        return graph_unchanged(args["self"], old)

    def post(self, ex, st, args, old, result):
        g = args["self"]
        if not isinstance(result, Obj):
            return z3.BoolVal(False)
        X = self.X(args)
        a, b = fresh("a", Atom), fresh("b", Atom)
        inplace = z3.is_true(args["inplace"].z)
        parts = [
            z3.ForAll([a, b], result.fields["@E"][a, b] == z3.And(old["@E"][a, b], z3.Not(X[b]))),
            z3.ForAll([a], result.fields["@nodes"][a] == old["@nodes"][a]),
        ]
        if inplace:
            parts.append(z3.BoolVal(result is g))
        else:
            parts.append(z3.BoolVal(result is not g))
            parts.append(z3.BoolVal(result.fields.get("latents") is not g.fields.get("latents")))
            parts.append(graph_unchanged(g, old))
        return z3.And(*parts)

    # loop 0: for node in nodes   (loop 1, the inner `for parent in parents`, is nested: needs its own invariant)
    def inv0(self, ex, st, args, old, ghost):
        dag = st.env["dag"]
        g = args["self"]
        done = ghost["done"]
        a, b = fresh("a", Atom), fresh("b", Atom)
        parts = [
            z3.ForAll([a, b], dag.fields["@E"][a, b] == z3.And(old["@E"][a, b], z3.Not(done[b]))),
            z3.ForAll([a], dag.fields["@nodes"][a] == old["@nodes"][a]),
            z3.ForAll([a], z3.Implies(self.X(args)[a], old["@nodes"][a])),
        ]
        if dag is not g:
            parts.append(graph_unchanged(g, old))
        return z3.And(*parts)

    def inv1(self, ex, st, args, old, ghost):
        dag = st.env["dag"]
        g = args["self"]
        node = st.env["node"].z
        done1 = ghost["done"]  # parents already removed
        outer = st.ghost.get("done0")
        a, b = fresh("a", Atom), fresh("b", Atom)
        parts = [
            z3.ForAll([a], dag.fields["@nodes"][a] == old["@nodes"][a]),
            z3.ForAll([a], z3.Implies(self.X(args)[a], old["@nodes"][a])),
            # edges into `node`: exactly the not-yet-removed parents; the iterated list is the old parent set of node
            z3.ForAll([a], ghost["iter"][a] == z3.And(old["@E"][a, node], z3.Not(outer[node]) if outer is not None else z3.BoolVal(True))),
            z3.ForAll([a, b], z3.Implies(b != node, dag.fields["@E"][a, b] == z3.And(old["@E"][a, b], z3.Not(outer[b]) if outer is not None else z3.BoolVal(True)))),
            z3.ForAll([a], dag.fields["@E"][a, node] == z3.And(ghost["iter"][a], z3.Not(done1[a]))),
        ]
        if dag is not g:
            parts.append(graph_unchanged(g, old))
        return z3.And(*parts)

    invariants = property(lambda self: {0: self.inv0, 1: self.inv1})


register(DAGDo())


# --------------------------------------------------------------------------------------------------- remove_node / copy
class BNRemoveNode(Contract):
    """graph part of BayesianNetwork.remove_node: the node, its incident edges and its latent flag disappear,
    nothing else changes; unknown node => ValueError with the model untouched.  CPD bookkeeping (marginalising
    the children's CPDs) is opaque here and decided by the bounded groups of C15."""
    file = "pgmpy/models/BayesianNetwork.py"
    qual = "BayesianNetwork.remove_node"

    def variants(self, ex):
        g = new_bn()
        g.fields["__opaque__"] = {"get_cpds": OpaqueFn("get_cpds", Opaque, pure=False), "remove_cpds": OpaqueFn("remove_cpds", Opaque, pure=False)}
        yield "any", {"self": g, "node": atom("n")}, {}

    def pre(self, ex, st, args):
        return wf_graph(args["self"])

    def snapshot(self, ex, st, args):
        return graph_snapshot(args["self"])

    def raises(self, ex, st, args):
        # get_cpds(node=...) raises ValueError for a node that is not in the graph (assumed contract of get_cpds)
        return {}

    def havoc(self, ex, st, args):
        g = args["self"]
        g.fields["@nodes"] = fresh("rn_nodes", set_sort(Atom))
        from vf.pyvc.lib import RelSort
        g.fields["@E"] = fresh("rn_E", RelSort)
        g.fields["latents"] = Coll("set", Atom, fresh("rn_lat", set_sort(Atom)))

    def post(self, ex, st, args, old, result):
        g, n = args["self"], args["node"].z
        a, b = fresh("a", Atom), fresh("b", Atom)
        return z3.And(
            z3.ForAll([a], g.fields["@nodes"][a] == z3.And(old["@nodes"][a], a != n)),
            z3.ForAll([a, b], g.fields["@E"][a, b] == z3.And(old["@E"][a, b], a != n, b != n)),
            z3.ForAll([a], g.fields["latents"].mem[a] == z3.And(old["latents"][a], a != n)),
        )


class BNRemoveNodeChecked(BNRemoveNode):
    """verification variant: requires the node to be present (the ValueError of the unknown-node case comes from
    get_cpds, whose body is not modelled)"""

    def pre(self, ex, st, args):
        return z3.And(wf_graph(args["self"]), N_(args["self"], args["node"].z))


register(BNRemoveNodeChecked())


class MNAddEdge(Contract):
    file = "pgmpy/models/MarkovNetwork.py"
    qual = "MarkovNetwork.add_edge"

    def variants(self, ex):
        g = new_graph("MarkovNetwork", "mn", directed=False, latents=False)
        yield "any", {"self": g, "u": atom("u"), "v": atom("v")}, {}

    def pre(self, ex, st, args):
        g = args["self"]
        a = fresh("a", Atom)
        return z3.And(wf_graph(g), z3.ForAll([a], z3.Not(g.fields["@E"][a, a])))

    def snapshot(self, ex, st, args):
        return graph_snapshot(args["self"])

    def raises(self, ex, st, args):
        return {"ValueError": args["u"].z == args["v"].z}

    def on_raise(self, ex, st, args, old, exc):
        return graph_unchanged(args["self"], old)

    def post(self, ex, st, args, old, result):
        g, u, v = args["self"], args["u"].z, args["v"].z
        a, b = fresh("a", Atom), fresh("b", Atom)
        return z3.And(
            z3.ForAll([a, b], g.fields["@E"][a, b] == z3.Or(old["@E"][a, b], z3.And(a == u, b == v), z3.And(a == v, b == u))),
            z3.ForAll([a], g.fields["@nodes"][a] == z3.Or(old["@nodes"][a], a == u, a == v)),
            wf_graph(g), z3.ForAll([a], z3.Not(g.fields["@E"][a, a])))


register(MNAddEdge())


class BNCopy(Contract):
    """structure part of BayesianNetwork.copy: a fresh object with the same nodes, edges and latent set, whose latent
    set is a different object than the original's (separation); CPD copies are opaque here (bounded: copy_separation)."""
    file = "pgmpy/models/BayesianNetwork.py"
    qual = "BayesianNetwork.copy"

    def variants(self, ex):
        g = new_bn()
        g.fields["cpds"] = Coll("list", Opaque, z3.Const("cpds", set_sort(Opaque)), nodup=True)
        yield "any", {"self": g}, {}

    def pre(self, ex, st, args):
        return wf_graph(args["self"])

    def snapshot(self, ex, st, args):
        return graph_snapshot(args["self"])

    def post(self, ex, st, args, old, result):
        g = args["self"]
        if not isinstance(result, Obj):
            return z3.BoolVal(False)
        a, b = fresh("a", Atom), fresh("b", Atom)
        lat = result.fields.get("latents")
        return {"same-structure": z3.And(z3.ForAll([a], result.fields["@nodes"][a] == old["@nodes"][a]),
                                         z3.ForAll([a, b], result.fields["@E"][a, b] == old["@E"][a, b]),
                                         z3.ForAll([a], lat.mem[a] == old["latents"][a]) if isinstance(lat, Coll) and lat.mem is not None
                                         else z3.ForAll([a], z3.Not(old["latents"][a]))),
                "fresh-object-and-own-latent-set": z3.BoolVal(result is not g and lat is not g.fields["latents"]),
                "frame": graph_unchanged(g, old)}


register(BNCopy())
