"""Sidecar contracts for C15 (structural consistency under any edit history).

Inductive invariant Inv(model): wf_graph /\\ acyclic(E).  Each editing operation is proved
{Inv} op {Inv} and {Inv} op-that-raises {state unchanged}; all finite histories follow by induction.
acyclic(E)  <=>  forall a,b. E(a,b) => not Path_E(b,a)     (Path reflexive, so self loops are excluded)
"""
import z3

from vf.pyvc.engine import Atom, B, Opaque, Coll, Contract, NONE, Obj, OpaqueFn, Scalar, empty_set, fresh, register, set_sort
from vf.pyvc.lib import N_, new_graph, wf_graph

from .common import atom, graph_snapshot, graph_unchanged, havoc_graph


def new_bn(tag="m"):
    g = new_graph("BayesianNetwork", tag)
    return g


class BNAddEdge(Contract):
    file = "pgmpy/models/BayesianNetwork.py"
    qual = "BayesianNetwork.add_edge"
    raises_leave_state = True   # on_raise below is exactly "nothing changed" (proved): callers keep the same state terms on that path

    def variants(self, ex):
        g = new_bn()
        yield "any", {"self": g, "u": atom("u"), "v": atom("v")}, {}

    def pre(self, ex, st, args):
        g = args["self"]
        th = ex.lib.theory(ex)
        return z3.And(wf_graph(g), th.acyclic(g.fields["@E"]))

    def havoc(self, ex, st, args):
        havoc_graph(args["self"], "ae")

    def snapshot(self, ex, st, args):
        return graph_snapshot(args["self"])

    def raises(self, ex, st, args):
        g, u, v = args["self"], args["u"].z, args["v"].z
        P = ex.lib.theory(ex).path(g.fields["@E"])
        return {"ValueError": z3.Or(u == v, z3.And(N_(g, u), N_(g, v), P(v, u)))}

    def on_raise(self, ex, st, args, old, exc):
        return graph_unchanged(args["self"], old)

    def post(self, ex, st, args, old, result):
        g, u, v = args["self"], args["u"].z, args["v"].z
        th = ex.lib.theory(ex)
        E0, E1 = old["@E"], g.fields["@E"]
        P0 = th.path(E0)
        a, b = fresh("a", Atom), fresh("b", Atom)
        # ghost lemmas (leastness instances, each a theorem of the least fix-point):
        #  L1  Path_{E+(u,v)}(a,b) => Path_E(a,b) \/ (Path_E(a,u) /\ Path_E(v,b))
        st.assume(th.induct_rel(E1, lambda x, y: z3.Or(P0(x, y), z3.And(P0(x, u), P0(v, y)))))
        #  a name that is not a node has no outgoing / incoming path
        st.assume(th.induct_forward(E0, z3.Store(empty_set(Atom), v, True)))
        st.assume(th.induct_backward(E0, z3.Store(empty_set(Atom), u, True)))
        return z3.And(
            z3.ForAll([a, b], E1[a, b] == z3.Or(E0[a, b], z3.And(a == u, b == v))),
            z3.ForAll([a], g.fields["@nodes"][a] == z3.Or(old["@nodes"][a], a == u, a == v)),
            z3.ForAll([a], g.fields["latents"].mem[a] == old["latents"][a]),
            wf_graph(g),
            th.acyclic(E1),
        )


register(BNAddEdge())


class DAGDo(Contract):
    """C13: graph surgery removes exactly the incoming edges of the intervened nodes."""
    file = "pgmpy/base/DAG.py"
    qual = "DAG.do"

    def variants(self, ex):
        from .common import atom_list

        for nl, nodes in (("single-str", atom("x", "str")), ("list", atom_list("xs", "list")), ("set", atom_list("xs", "set")),
                          ("tuple", atom_list("xs", "tuple"))):
            for inplace in (True, False):
                g = new_graph("DAG", "g")
                yield f"nodes={nl},inplace={inplace}", {"self": g, "nodes": nodes, "inplace": Scalar(z3.BoolVal(inplace))}, {}

    @staticmethod
    def X(args):
        n = args["nodes"]
        if isinstance(n, Scalar):
            return z3.Store(empty_set(Atom), n.z, True)
        return n.mem if n.mem is not None else empty_set(Atom)

    def pre(self, ex, st, args):
        return wf_graph(args["self"])

    def havoc(self, ex, st, args):
        if z3.is_true(args["inplace"].z):
            havoc_graph(args["self"], "do")

    def snapshot(self, ex, st, args):
        return graph_snapshot(args["self"])

    def raises(self, ex, st, args):
        x = fresh("x", Atom)
        return {"ValueError": z3.Exists([x], z3.And(self.X(args)[x], z3.Not(N_(args["self"], x))))}

    def on_raise(self, ex, st, args, old, exc):
        return graph_unchanged(args["self"], old)

    def post(self, ex, st, args, old, result):
        g = args["self"]
        if not isinstance(result, Obj):
            return z3.BoolVal(False)
        X = self.X(args)
        a, b = fresh("a", Atom), fresh("b", Atom)
        inplace = z3.is_true(args["inplace"].z)
        parts = [
            z3.ForAll([a, b], result.fields["@E"][a, b] == z3.And(old["@E"][a, b], z3.Not(X[b]))),
            z3.ForAll([a], result.fields["@nodes"][a] == old["@nodes"][a]),
        ]
        if inplace:
            parts.append(z3.BoolVal(result is g))
        else:
            parts.append(z3.BoolVal(result is not g))
            parts.append(z3.BoolVal(result.fields.get("latents") is not g.fields.get("latents")))
            parts.append(graph_unchanged(g, old))
        return z3.And(*parts)

    # loop 0: for node in nodes   (loop 1, the inner `for parent in parents`, is nested: needs its own invariant)
    def inv0(self, ex, st, args, old, ghost):
        dag = st.env["dag"]
        g = args["self"]
        done = ghost["done"]
        a, b = fresh("a", Atom), fresh("b", Atom)
        parts = [
            z3.ForAll([a, b], dag.fields["@E"][a, b] == z3.And(old["@E"][a, b], z3.Not(done[b]))),
            z3.ForAll([a], dag.fields["@nodes"][a] == old["@nodes"][a]),
            z3.ForAll([a], z3.Implies(self.X(args)[a], old["@nodes"][a])),
        ]
        if dag is not g:
            parts.append(graph_unchanged(g, old))
        return z3.And(*parts)

    def inv1(self, ex, st, args, old, ghost):
        dag = st.env["dag"]
        g = args["self"]
        node = st.env["node"].z
        done1 = ghost["done"]  # parents already removed
        outer = st.ghost.get("done0")
        a, b = fresh("a", Atom), fresh("b", Atom)
        parts = [
            z3.ForAll([a], dag.fields["@nodes"][a] == old["@nodes"][a]),
            z3.ForAll([a], z3.Implies(self.X(args)[a], old["@nodes"][a])),
            # edges into `node`: exactly the not-yet-removed parents; the iterated list is the old parent set of node
            z3.ForAll([a], ghost["iter"][a] == z3.And(old["@E"][a, node], z3.Not(outer[node]) if outer is not None else z3.BoolVal(True))),
            z3.ForAll([a, b], z3.Implies(b != node, dag.fields["@E"][a, b] == z3.And(old["@E"][a, b], z3.Not(outer[b]) if outer is not None else z3.BoolVal(True)))),
            z3.ForAll([a], dag.fields["@E"][a, node] == z3.And(ghost["iter"][a], z3.Not(done1[a]))),
        ]
        if dag is not g:
            parts.append(graph_unchanged(g, old))
        return z3.And(*parts)

    invariants = property(lambda self: {0: self.inv0, 1: self.inv1})


register(DAGDo())


# --------------------------------------------------------------------------------------------------- remove_node / copy
class BNRemoveNode(Contract):
    """graph part of BayesianNetwork.remove_node: the node, its incident edges and its latent flag disappear,
    nothing else changes; unknown node => ValueError with the model untouched.  CPD bookkeeping (marginalising
    the children's CPDs) is opaque here and decided by the bounded groups of C15."""
    file = "pgmpy/models/BayesianNetwork.py"
    qual = "BayesianNetwork.remove_node"

    def variants(self, ex):
        g = new_bn()
        g.fields["__opaque__"] = {"get_cpds": OpaqueFn("get_cpds", Opaque, pure=False), "remove_cpds": OpaqueFn("remove_cpds", Opaque, pure=False)}
        yield "any", {"self": g, "node": atom("n")}, {}

    def pre(self, ex, st, args):
        return wf_graph(args["self"])

    def snapshot(self, ex, st, args):
        return graph_snapshot(args["self"])

    def raises(self, ex, st, args):
        # get_cpds(node=...) raises ValueError for a node that is not in the graph (assumed contract of get_cpds)
        return {}

    def havoc(self, ex, st, args):
        g = args["self"]
        g.fields["@nodes"] = fresh("rn_nodes", set_sort(Atom))
        from vf.pyvc.lib import RelSort
        g.fields["@E"] = fresh("rn_E", RelSort)
        g.fields["latents"] = Coll("set", Atom, fresh("rn_lat", set_sort(Atom)))

    def post(self, ex, st, args, old, result):
        g, n = args["self"], args["node"].z
        a, b = fresh("a", Atom), fresh("b", Atom)
        return z3.And(
            z3.ForAll([a], g.fields["@nodes"][a] == z3.And(old["@nodes"][a], a != n)),
            z3.ForAll([a, b], g.fields["@E"][a, b] == z3.And(old["@E"][a, b], a != n, b != n)),
            z3.ForAll([a], g.fields["latents"].mem[a] == z3.And(old["latents"][a], a != n)),
        )


class BNRemoveNodeChecked(BNRemoveNode):
    """verification variant: requires the node to be present (the ValueError of the unknown-node case comes from
    get_cpds, whose body is not modelled)"""

    def pre(self, ex, st, args):
        return z3.And(wf_graph(args["self"]), N_(args["self"], args["node"].z))


register(BNRemoveNodeChecked())


class BNRemoveNodesFrom(Contract):
    """graph part of BayesianNetwork.remove_nodes_from, for pairwise distinct nodes of the model (a set, or a list without repetition):
    exactly the listed nodes, their incident edges and their latent flags disappear, nothing else changes, the representation
    invariant is kept.  (A repeated or unknown node ends in the ValueError of get_cpds, whose body is not modelled: excluded by the
    precondition, decided by the bounded group history_BN.)"""
    file = "pgmpy/models/BayesianNetwork.py"
    qual = "BayesianNetwork.remove_nodes_from"

    def variants(self, ex):
        for kind in ("set", "list"):
            g = new_bn()
            g.fields["__opaque__"] = {"get_cpds": OpaqueFn("get_cpds", Opaque, pure=False), "remove_cpds": OpaqueFn("remove_cpds", Opaque, pure=False)}
            ns = Coll(kind, Atom, z3.Const("nodes", set_sort(Atom)), nodup=True)
            yield f"nodes={kind}", {"self": g, "nodes": ns}, {}

    def pre(self, ex, st, args):
        g = args["self"]
        a = fresh("a", Atom)
        return z3.And(wf_graph(g), z3.ForAll([a], z3.Implies(args["nodes"].mem[a], N_(g, a))))

    def snapshot(self, ex, st, args):
        return graph_snapshot(args["self"])

    def havoc(self, ex, st, args):
        havoc_graph(args["self"], "rnf")

    def raises(self, ex, st, args):
        return {}

    def removed(self, g, old, gone):
        a, b = fresh("a", Atom), fresh("b", Atom)
        return [z3.ForAll([a], g.fields["@nodes"][a] == z3.And(old["@nodes"][a], z3.Not(gone[a]))),
                z3.ForAll([a, b], g.fields["@E"][a, b] == z3.And(old["@E"][a, b], z3.Not(gone[a]), z3.Not(gone[b]))),
                z3.ForAll([a], g.fields["latents"].mem[a] == z3.And(old["latents"][a], z3.Not(gone[a])))]

    def post(self, ex, st, args, old, result):
        g = args["self"]
        n, e, l = self.removed(g, old, args["nodes"].mem)
        return {"nodes": n, "edges": e, "latents": l, "wf": wf_graph(g)}

    # loop 0: for node in nodes
    def inv0(self, ex, st, args, old, ghost):
        g = args["self"]
        return z3.And(*self.removed(g, old, ghost["done"]), wf_graph(g))

    invariants = property(lambda self: {0: self.inv0})


register(BNRemoveNodesFrom())


class MNAddEdge(Contract):
    file = "pgmpy/models/MarkovNetwork.py"
    qual = "MarkovNetwork.add_edge"

    def variants(self, ex):
        g = new_graph("MarkovNetwork", "mn", directed=False, latents=False)
        yield "any", {"self": g, "u": atom("u"), "v": atom("v")}, {}

    def pre(self, ex, st, args):
        g = args["self"]
        a = fresh("a", Atom)
        return z3.And(wf_graph(g), z3.ForAll([a], z3.Not(g.fields["@E"][a, a])))

    def havoc(self, ex, st, args):
        havoc_graph(args["self"], "mn", latents=False)

    def snapshot(self, ex, st, args):
        return graph_snapshot(args["self"])

    def raises(self, ex, st, args):
        return {"ValueError": args["u"].z == args["v"].z}

    def on_raise(self, ex, st, args, old, exc):
        return graph_unchanged(args["self"], old)

    def post(self, ex, st, args, old, result):
        g, u, v = args["self"], args["u"].z, args["v"].z
        a, b = fresh("a", Atom), fresh("b", Atom)
        return z3.And(
            z3.ForAll([a, b], g.fields["@E"][a, b] == z3.Or(old["@E"][a, b], z3.And(a == u, b == v), z3.And(a == v, b == u))),
            z3.ForAll([a], g.fields["@nodes"][a] == z3.Or(old["@nodes"][a], a == u, a == v)),
            wf_graph(g), z3.ForAll([a], z3.Not(g.fields["@E"][a, a])))


register(MNAddEdge())


class BNCopy(Contract):
    pure = True   # does not modify any pre-existing object
    """structure part of BayesianNetwork.copy: a fresh object with the same nodes, edges and latent set, whose latent
    set is a different object than the original's (separation); CPD copies are opaque here (bounded: copy_separation)."""
    file = "pgmpy/models/BayesianNetwork.py"
    qual = "BayesianNetwork.copy"

    def variants(self, ex):
        g = new_bn()
        g.fields["cpds"] = Coll("list", Opaque, z3.Const("cpds", set_sort(Opaque)), nodup=True)
        yield "any", {"self": g}, {}

    def pre(self, ex, st, args):
        # a BayesianNetwork is acyclic (invariant kept by every editing operation, see BNAddEdge / DAGAddEdgesFrom): copy re-adds the
        # edges through add_edges_from, whose acyclicity guard must not fire
        return z3.And(wf_graph(args["self"]), ex.lib.theory(ex).acyclic(args["self"].fields["@E"]))

    def snapshot(self, ex, st, args):
        return graph_snapshot(args["self"])

    def post(self, ex, st, args, old, result):
        g = args["self"]
        if not isinstance(result, Obj):
            return z3.BoolVal(False)
        a, b = fresh("a", Atom), fresh("b", Atom)
        lat = result.fields.get("latents")
        return {"same-structure": z3.And(z3.ForAll([a], result.fields["@nodes"][a] == old["@nodes"][a]),
                                         z3.ForAll([a, b], result.fields["@E"][a, b] == old["@E"][a, b]),
                                         z3.ForAll([a], lat.mem[a] == old["latents"][a]) if isinstance(lat, Coll) and lat.mem is not None
                                         else z3.ForAll([a], z3.Not(old["latents"][a]))),
                "fresh-object-and-own-latent-set": z3.BoolVal(result is not g and lat is not g.fields["latents"]),
                "frame": graph_unchanged(g, old)}


register(BNCopy())


# --------------------------------------------------------------------------------------------------- DBN.add_edge
from vf.pyvc.engine import I, TupleV
from vf.pyvc.lib import DN, dn_name, dn_slice, ensure_dn, is_dn


def dbn_inv(ex, g):
    """two-slice template invariant: nodes are DynamicNodes of slice 0/1, intra-slice edges are mirrored in both slices,
    no edge leads from slice 1 back to slice 0, and the graph is acyclic."""
    ensure_dn(ex)
    th = ex.lib.theory(ex)
    E, Nn = g.fields["@E"], g.fields["@nodes"]
    n, a, b = fresh("n", Atom), fresh("a", Atom), fresh("b", Atom)
    return z3.And(
        wf_graph(g),
        z3.ForAll([n], z3.Implies(Nn[n], z3.And(is_dn(n), z3.Or(dn_slice(n) == 0, dn_slice(n) == 1)))),
        z3.ForAll([a, b], E[DN(a, 0), DN(b, 0)] == E[DN(a, 1), DN(b, 1)]),
        z3.ForAll([a, b], z3.Implies(E[a, b], dn_slice(a) <= dn_slice(b))),
        th.acyclic(E),
    )


class DBNAddEdge(Contract):
    file = "pgmpy/models/DynamicBayesianNetwork.py"
    qual = "DynamicBayesianNetwork.add_edge"

    def variants(self, ex):
        g = new_graph("DynamicBayesianNetwork", "dbn")
        start = TupleV([atom("sa", "str"), Scalar(z3.Const("st", I))])
        end = TupleV([atom("ea", "str"), Scalar(z3.Const("et", I))])
        yield "any", {"self": g, "start": start, "end": end}, {"dynamic_nodes": True}

    def pre(self, ex, st, args):
        return dbn_inv(ex, args["self"])

    def havoc(self, ex, st, args):
        havoc_graph(args["self"], "dbn")

    def snapshot(self, ex, st, args):
        return graph_snapshot(args["self"])

    def norm(self, args):
        sa, stt = args["start"].items[0].z, args["start"].items[1].z
        ea, ett = args["end"].items[0].z, args["end"].items[1].z
        same = stt == ett
        s = DN(sa, 0)
        e = z3.If(same, DN(ea, 0), DN(ea, 1))
        return sa, stt, ea, ett, same, s, e

    def raises(self, ex, st, args):
        g = args["self"]
        sa, stt, ea, ett, same, s, e = self.norm(args)
        P = ex.lib.theory(ex).path(g.fields["@E"])
        ok_slices = z3.Or(same, stt == ett - 1)
        return {"NotImplementedError": z3.And(z3.Not(ok_slices), stt > ett),
                "ValueError": z3.Or(z3.And(z3.Not(ok_slices), z3.Not(stt > ett)),
                                    z3.And(ok_slices, z3.Or(s == e, z3.And(N_(g, s), N_(g, e), P(e, s)))))}

    def on_raise(self, ex, st, args, old, exc):
        return graph_unchanged(args["self"], old)

    def post(self, ex, st, args, old, result):
        g = args["self"]
        th = ex.lib.theory(ex)
        sa, stt, ea, ett, same, s, e = self.norm(args)
        E0, E1 = old["@E"], g.fields["@E"]
        P0 = th.path(E0)
        s1, e1 = DN(sa, 1), DN(ea, 1)
        a, b = fresh("a", Atom), fresh("b", Atom)
        # ghost lemmas (leastness instances):
        #  (1) paths that start in slice 1 stay in slice 1 and have a twin path in slice 0
        st.assume(th.induct_rel(E0, lambda x, y: z3.Implies(dn_slice(x) == 1, z3.And(dn_slice(y) == 1, z3.Or(x == y, P0(DN(dn_name(x), 0), DN(dn_name(y), 0)))))))
        #  (2) paths never go back from slice 1 to slice 0 (monotone slices)
        st.assume(th.induct_rel(E0, lambda x, y: dn_slice(x) <= dn_slice(y)))
        #  (3) L1 for the edge set with (s,e) added, and for the final edge set
        Emid = z3.Lambda([a, b], z3.Or(E0[a, b], z3.And(a == s, b == e)))
        Pm = th.path(Emid)
        st.assume(th.induct_rel(Emid, lambda x, y: z3.Or(P0(x, y), z3.And(P0(x, s), P0(e, y)))))
        st.assume(th.induct_rel(E1, lambda x, y: z3.Or(Pm(x, y), z3.And(same, Pm(x, s1), Pm(e1, y)))))
        #  (4) a name that is not a node has no outgoing / incoming path
        for nd in (s, e, s1, e1):
            st.assume(th.induct_forward(E0, z3.Store(empty_set(Atom), nd, True)))
            st.assume(th.induct_backward(E0, z3.Store(empty_set(Atom), nd, True)))
        return {
            "edges": z3.ForAll([a, b], E1[a, b] == z3.Or(E0[a, b], z3.And(a == s, b == e), z3.And(same, a == s1, b == e1))),
            "nodes": z3.ForAll([a], g.fields["@nodes"][a] == z3.Or(old["@nodes"][a], a == s, a == e, z3.And(same, z3.Or(a == s1, a == e1)),
                                                                  z3.And(z3.Not(same), a == DN(ea, 0)))),
            "invariant-preserved": dbn_inv(ex, g),
        }


register(DBNAddEdge())


# --------------------------------------------------------------------------------------------------- add_edges_from
class DAGAddEdgesFrom(Contract):
    """DAG.add_edges_from (inherited by BayesianNetwork): every listed edge is added through self.add_edge, so on a
    BayesianNetwork the acyclicity guard sees each of them, with or without weights=.
      return  =>  E = E0 + ebunch, nodes = N0 + endpoints, latents kept, invariant kept
      raise   <=> a non-empty weights list of another length, or (BayesianNetwork) E0 + ebunch has a directed cycle;
                  then E0 <= E <= E0 + ebunch and the invariant still holds (a prefix of the list was applied)."""
    file = "pgmpy/base/DAG.py"
    qual = "DAG.add_edges_from"
    propagates = ("BayesianNetwork.add_edge",)

    def variants(self, ex):
        from vf.pyvc.lib import PairAA
        for cls in ("DAG", "BayesianNetwork"):
            for wl in ("none", "list"):
                g = new_graph(cls, "g")
                eb = Coll("list", PairAA, z3.Const("ebunch", set_sort(PairAA)))
                eb.len_z = z3.Int("n_ebunch")
                if wl == "none":
                    w = NONE
                else:
                    w = Coll("list", Opaque, z3.Const("weights", set_sort(Opaque)))
                    w.len_z = z3.Int("n_weights")
                yield f"self={cls},weights={wl}", {"self": g, "ebunch": eb, "weights": w}, {}

    @staticmethod
    def fin(ex, args):
        """ghost: the edge relation E0 + ebunch (defined over the pre-state on first use)"""
        from vf.pyvc.lib import PairAA, RelSort
        g = args["self"]
        if getattr(g, "_fin", None) is None:
            a, b = fresh("a", Atom), fresh("b", Atom)
            fin = fresh("Efin", RelSort)
            ex.axioms.append(z3.ForAll([a, b], fin[a, b] == z3.Or(g.fields["@E"][a, b], args["ebunch"].mem[PairAA.mk(a, b)])))
            g._fin = fin
            # monotonicity instances against every edge relation already in play (theorems of the least fix-point; a caller that
            # passes the edges of an acyclic graph needs Path_fin <= Path_thatgraph to exclude the ValueError)
            th = ex.lib.theory(ex)
            for k, (X, PX) in list(th.rels.items()):
                if isinstance(k, int) and not X.eq(fin):
                    ex.axioms.append(th.induct_rel(fin, lambda x, y, PX=PX: PX(x, y)))
        return g._fin

    def pre(self, ex, st, args):
        from vf.pyvc.engine import nonempty
        g = args["self"]
        th = ex.lib.theory(ex)
        self.fin(ex, args)
        parts = [wf_graph(g)]
        if g.cls == "BayesianNetwork":
            parts.append(th.acyclic(g.fields["@E"]))
        for c in (args["ebunch"], args["weights"]):   # type invariant of list parameters: len >= 0, len == 0 iff empty
            if isinstance(c, Coll) and c.len_z is not None and c.mem is not None:
                parts += [c.len_z >= 0, (c.len_z == 0) == z3.Not(nonempty(c.mem, c.esort))]
        return z3.And(*parts)

    def havoc(self, ex, st, args):
        havoc_graph(args["self"], "aef")

    def snapshot(self, ex, st, args):
        return graph_snapshot(args["self"])

    def raises(self, ex, st, args):
        g, w = args["self"], args["weights"]
        th = ex.lib.theory(ex)
        conds = []
        if g.cls == "BayesianNetwork":
            conds.append(z3.Not(th.acyclic(self.fin(ex, args))))
        if isinstance(w, Coll):
            conds.append(z3.And(w.len_z != 0, w.len_z != args["ebunch"].len_z))
        return {"ValueError": z3.Or(*conds) if conds else z3.BoolVal(False)}

    def between(self, ex, st, args, old, lemmas=True):
        """E0 <= E <= E0 + ebunch, nodes only grow by endpoints of listed edges, latents kept, invariant kept"""
        from vf.pyvc.lib import PairAA
        g = args["self"]
        th = ex.lib.theory(ex)
        fin, E, eb = self.fin(ex, args), g.fields["@E"], args["ebunch"].mem
        a, b = fresh("a", Atom), fresh("b", Atom)
        parts = [z3.ForAll([a, b], z3.Implies(old["@E"][a, b], E[a, b])), z3.ForAll([a, b], z3.Implies(E[a, b], fin[a, b])),
                 z3.ForAll([a], z3.Implies(old["@nodes"][a], g.fields["@nodes"][a])),
                 z3.ForAll([a], z3.Implies(g.fields["@nodes"][a], z3.Or(old["@nodes"][a], z3.Exists([b], z3.Or(eb[PairAA.mk(a, b)], eb[PairAA.mk(b, a)]))))),
                 z3.ForAll([a], g.fields["latents"].mem[a] == old["latents"][a]), wf_graph(g)]
        if g.cls == "BayesianNetwork":
            parts.append(th.acyclic(E))
        return z3.And(*parts)

    def on_raise(self, ex, st, args, old, exc):
        return self.between(ex, st, args, old)

    def post(self, ex, st, args, old, result):
        from vf.pyvc.lib import PairAA
        g = args["self"]
        th = ex.lib.theory(ex)
        a, b = fresh("a", Atom), fresh("b", Atom)
        eb, fin = args["ebunch"].mem, self.fin(ex, args)
        if g.cls == "BayesianNetwork":
            # ghost lemma (monotonicity of the least fix-point): Path_fin <= Path_E once fin <= E
            st.assume(th.induct_rel(fin, lambda x, y: th.path(g.fields["@E"])(x, y)))
        out = {"edges": z3.ForAll([a, b], g.fields["@E"][a, b] == z3.Or(old["@E"][a, b], eb[PairAA.mk(a, b)])),
               "nodes": z3.ForAll([a], g.fields["@nodes"][a] == z3.Or(old["@nodes"][a], z3.Exists([b], z3.Or(eb[PairAA.mk(a, b)], eb[PairAA.mk(b, a)])))),
               "latents": z3.ForAll([a], g.fields["latents"].mem[a] == old["latents"][a]),
               "wf": wf_graph(g)}
        if g.cls == "BayesianNetwork":
            out["acyclic"] = th.acyclic(g.fields["@E"])
        return out

    def inv(self, ex, st, args, old, listed):
        """E = E0 + the edges listed so far (same for nodes), latents kept, invariant kept"""
        from vf.pyvc.lib import PairAA
        g = args["self"]
        th = ex.lib.theory(ex)
        E, fin = g.fields["@E"], self.fin(ex, args)
        a, b = fresh("a", Atom), fresh("b", Atom)
        if g.cls == "BayesianNetwork":
            # ghost lemma: Path_E <= Path_fin because E <= fin  (used where add_edge refuses an edge: the cycle is one of fin)
            st.assume(th.induct_rel(E, lambda x, y: th.path(fin)(x, y)))
            # and Path_fin <= Path_E once every listed edge is in (the instance is a theorem of the least fix-point in any state;
            # its premise, closure of Path_E under fin-steps, holds at loop exit)
            st.assume(th.induct_rel(fin, lambda x, y: th.path(E)(x, y)))
        parts = [z3.ForAll([a, b], E[a, b] == z3.Or(old["@E"][a, b], listed(a, b))),
                 z3.ForAll([a], g.fields["@nodes"][a] == z3.Or(old["@nodes"][a], z3.Exists([b], z3.Or(listed(a, b), listed(b, a))))),
                 z3.ForAll([a], g.fields["latents"].mem[a] == old["latents"][a]), wf_graph(g)]
        if g.cls == "BayesianNetwork":
            parts.append(th.acyclic(E))
        return z3.And(*parts)

    # loop 0: for index in range(len(ebunch))  /  for index, edge in enumerate(ebunch)     (weights given)
    def inv0(self, ex, st, args, old, ghost):
        from vf.pyvc.lib import PairAA
        eb = st.env["ebunch"]
        at, idx = ex.seq_of(eb, st)
        done = ghost["done"]
        i = fresh("i", z3.IntSort())
        dom = done.sort().domain()
        if dom != z3.IntSort():
            # the same loop written `for index, edge in enumerate(ebunch)`: the iteration elements are the pairs (i, ebunch[i])
            mk = dom.constructor(0)
            return z3.And(self.inv(ex, st, args, old, lambda a, b: z3.Exists([i], z3.And(done[mk(i, PairAA.mk(a, b))], at(i) == PairAA.mk(a, b)))),
                          z3.ForAll([i, p_ := fresh("e", PairAA)], z3.Implies(done[mk(i, p_)], z3.And(0 <= i, i < eb.len_z, at(i) == p_))))
        return z3.And(self.inv(ex, st, args, old, lambda a, b: z3.Exists([i], z3.And(done[i], at(i) == PairAA.mk(a, b)))),
                      z3.ForAll([i], z3.Implies(done[i], z3.And(0 <= i, i < eb.len_z))))

    # loop 1: for edge in ebunch
    def inv1(self, ex, st, args, old, ghost):
        from vf.pyvc.lib import PairAA
        done = ghost["done"]
        return self.inv(ex, st, args, old, lambda a, b: done[PairAA.mk(a, b)])

    invariants = property(lambda self: {0: self.inv0, 1: self.inv1})


register(DAGAddEdgesFrom())


# --------------------------------------------------------------------------------------------------- wrapper lemmas
class WrapperLemma(Contract):
    """`Cls.method` has exactly the effect of the networkx model that vf/pyvc/lib.py substitutes for it at call sites
    (ASSUMED_WRAPPERS shortcut).  Verified, never applied: it turns that shortcut from an assumption into a lemma for the
    argument shapes listed in `shapes` (the ones the contracted code uses)."""
    lemma_only = True

    def __init__(self, file, cls, method, shapes):
        self.file, self.cls, self.method, self.shapes = file, cls, method, shapes
        self.qual = f"{cls}.{method}"

    def mk_graph(self):
        directed = self.cls == "DAG"
        return new_graph(self.cls, "g") if directed else new_graph(self.cls, "g", directed=False, latents=False)

    def variants(self, ex):
        for label, mk in self.shapes:
            yield label, dict(self=self.mk_graph(), **mk()), {}

    def pre(self, ex, st, args):
        from vf.pyvc.engine import nonempty
        parts = [wf_graph(args["self"])]
        for c in args.values():
            if isinstance(c, Coll) and c.len_z is not None and c.mem is not None:
                parts += [c.len_z >= 0, (c.len_z == 0) == z3.Not(nonempty(c.mem, c.esort))]
        w, n = args.get("weights"), args.get("nodes", args.get("ebunch"))
        if isinstance(w, Coll) and isinstance(n, Coll):
            parts.append(w.len_z == n.len_z)   # the length check of the weights= branch is covered by DAGAddEdgesFrom; here: equal lengths
        return z3.And(*parts)

    def snapshot(self, ex, st, args):
        # the model's effect, computed on a copy of the pre-state graph
        g = args["self"]
        shadow = Obj(g.cls, dict(g.fields))
        if "latents" in g.fields:
            shadow.fields["latents"] = Coll("set", Atom, g.fields["latents"].mem)
        cname = "DiGraph" if g.fields["@directed"] else "Graph"
        pos = [v for k, v in args.items() if k in ("node", "nodes", "u", "v", "ebunch")]
        kw = {k: v for k, v in args.items() if k in ("latent",) and not (isinstance(v, Scalar) and z3.is_false(v.z) and self.method == "add_nodes_from")}
        ex.lib.graph_method(ex, cname, shadow, self.method, pos, kw, st)
        return {"shadow": shadow}

    def post(self, ex, st, args, old, result):
        g, sh = args["self"], old["shadow"]
        a, b = fresh("a", Atom), fresh("b", Atom)
        out = {"nodes": z3.ForAll([a], g.fields["@nodes"][a] == sh.fields["@nodes"][a]),
               "edges": z3.ForAll([a, b], g.fields["@E"][a, b] == sh.fields["@E"][a, b])}
        if "latents" in g.fields:
            out["latents"] = z3.ForAll([a], g.fields["latents"].mem[a] == sh.fields["latents"].mem[a])
        return out

    # loops of add_nodes_from / add_edges_from: the graph equals the model applied to the part of the list processed so far
    def _inv(self, ex, st, args, old, listed_node=None, listed_edge=None):
        g = args["self"]
        a, b = fresh("a", Atom), fresh("b", Atom)
        N0, E0 = self.cold0["@nodes"], self.cold0["@E"]
        directed = g.fields["@directed"]
        if listed_node is not None:
            parts = [z3.ForAll([a], g.fields["@nodes"][a] == z3.Or(N0[a], listed_node(a))),
                     z3.ForAll([a, b], g.fields["@E"][a, b] == E0[a, b])]
        else:
            e = (lambda x, y: listed_edge(x, y)) if directed else (lambda x, y: z3.Or(listed_edge(x, y), listed_edge(y, x)))
            parts = [z3.ForAll([a, b], g.fields["@E"][a, b] == z3.Or(E0[a, b], e(a, b))),
                     z3.ForAll([a], g.fields["@nodes"][a] == z3.Or(N0[a], z3.Exists([b], z3.Or(listed_edge(a, b), listed_edge(b, a)))))]
        if "latents" in g.fields:
            parts.append(z3.ForAll([a], g.fields["latents"].mem[a] == self.cold0["latents"][a]))
        parts.append(wf_graph(g))
        return z3.And(*parts)

    def inv_index(self, ex, st, args, old, ghost):
        from vf.pyvc.lib import PairAA
        name = "nodes" if self.method == "add_nodes_from" else "ebunch"
        c = st.env[name]
        at, _ = ex.seq_of(c, st)
        done = ghost["done"]
        i = fresh("i", z3.IntSort())
        rng = z3.ForAll([i], z3.Implies(done[i], z3.And(0 <= i, i < c.len_z)))
        if self.method == "add_nodes_from":
            return z3.And(self._inv(ex, st, args, old, listed_node=lambda a: z3.Exists([i], z3.And(done[i], at(i) == a))), rng)
        return z3.And(self._inv(ex, st, args, old, listed_edge=lambda a, b: z3.Exists([i], z3.And(done[i], at(i) == PairAA.mk(a, b)))), rng)

    def inv_elem(self, ex, st, args, old, ghost):
        from vf.pyvc.lib import PairAA
        done = ghost["done"]
        if self.method == "add_nodes_from":
            return self._inv(ex, st, args, old, listed_node=lambda a: done[a])
        return self._inv(ex, st, args, old, listed_edge=lambda a, b: done[PairAA.mk(a, b)])

    @property
    def invariants(self):
        if self.method not in ("add_nodes_from", "add_edges_from"):
            return {}
        if self.cls == "DAG" and self.method == "add_nodes_from":
            return {0: self.inv_index, 1: self.inv_index}
        return {0: self.inv_index, 1: self.inv_elem}


def _wl_snapshot(self, ex, st, args):
    self.cold0 = graph_snapshot(args["self"])
    return WrapperLemma._snapshot0(self, ex, st, args)


WrapperLemma._snapshot0 = WrapperLemma.snapshot
WrapperLemma.snapshot = _wl_snapshot


def _shapes():
    from vf.pyvc.lib import PairAA
    from .common import atom_list

    def lst(name, sort, const):
        c = Coll("list", sort, z3.Const(const, set_sort(sort)))
        c.len_z = z3.Int("n_" + const)
        return c
    node = lambda: {"node": atom("n", "str")}
    dag, ug = "pgmpy/base/DAG.py", "pgmpy/base/UndirectedGraph.py"
    yield WrapperLemma(dag, "DAG", "add_node", [("plain", node), ("latent=False", lambda: dict(node(), latent=Scalar(z3.BoolVal(False)))),
                                                ("latent=True", lambda: dict(node(), latent=Scalar(z3.BoolVal(True)))),
                                                ("weight", lambda: dict(node(), weight=Scalar(z3.Const("w", Opaque))))])
    yield WrapperLemma(dag, "DAG", "add_nodes_from", [("plain", lambda: {"nodes": lst("nodes", Atom, "nodes")}),
                                                      ("weights", lambda: {"nodes": lst("nodes", Atom, "nodes"), "weights": lst("weights", Opaque, "weights")})])
    yield WrapperLemma(dag, "DAG", "add_edge", [("plain", lambda: {"u": atom("u"), "v": atom("v")}),
                                                ("weight", lambda: {"u": atom("u"), "v": atom("v"), "weight": Scalar(z3.Const("w", Opaque))})])
    yield WrapperLemma(ug, "UndirectedGraph", "add_node", [("plain", node), ("weight", lambda: dict(node(), weight=Scalar(z3.Const("w", Opaque))))])
    yield WrapperLemma(ug, "UndirectedGraph", "add_nodes_from", [("plain", lambda: {"nodes": lst("nodes", Atom, "nodes")}),
                                                                  ("weights", lambda: {"nodes": lst("nodes", Atom, "nodes"), "weights": lst("weights", Opaque, "weights")})])
    yield WrapperLemma(ug, "UndirectedGraph", "add_edge", [("plain", lambda: {"u": atom("u"), "v": atom("v")})])
    yield WrapperLemma(ug, "UndirectedGraph", "add_edges_from", [("plain", lambda: {"ebunch": lst("ebunch", PairAA, "ebunch")}),
                                                                  ("weights", lambda: {"ebunch": lst("ebunch", PairAA, "ebunch"), "weights": lst("weights", Opaque, "weights")})])


WRAPPER_LEMMAS = list(_shapes())
for _w in WRAPPER_LEMMAS:
    register(_w)


# --------------------------------------------------------------------------------------------------- CPD lookup
class BNGetCpds(Contract):
    """BayesianNetwork.get_cpds(node): ValueError exactly for a name that is not a node; otherwise an attached CPD whose `variable`
    is the node, or None when no attached CPD has that variable; get_cpds() returns the list itself.  Nothing is modified."""
    file = "pgmpy/models/BayesianNetwork.py"
    qual = "BayesianNetwork.get_cpds"
    pure = True

    def variants(self, ex):
        for nl in ("node", "None"):
            g = new_bn()
            g.fields["cpds"] = Coll("list", Opaque, z3.Const("cpds", set_sort(Opaque)))
            g.fields["cpds"].elem_pytype = "CPD"
            yield f"node={nl}", {"self": g, "node": atom("n") if nl == "node" else NONE}, {}

    def pre(self, ex, st, args):
        return wf_graph(args["self"])

    def snapshot(self, ex, st, args):
        return graph_snapshot(args["self"])

    def raises(self, ex, st, args):
        if not isinstance(args["node"], Scalar):
            return {}
        return {"ValueError": z3.Not(N_(args["self"], args["node"].z))}

    def on_raise(self, ex, st, args, old, exc):
        return graph_unchanged(args["self"], old)

    def post(self, ex, st, args, old, result):
        from vf.pyvc.engine import NoneV
        g = args["self"]
        L = g.fields["cpds"].mem
        var = z3.Function("cpd_variable", Opaque, Atom)
        c = fresh("c", Opaque)
        out = {"frame": graph_unchanged(g, old)}
        if not isinstance(args["node"], Scalar):
            out["the-list"] = z3.BoolVal(result is g.fields["cpds"])
            return out
        n = args["node"].z
        if isinstance(result, NoneV):
            out["none-only-if-no-cpd-for-the-node"] = z3.ForAll([c], z3.Implies(L[c], var(c) != n))
        elif isinstance(result, Scalar) and result.z.sort() == Opaque:
            out["an-attached-cpd-of-the-node"] = z3.And(L[result.z], var(result.z) == n)
        else:
            return z3.BoolVal(False)
        return out


register(BNGetCpds())


class BNAddCpds(Contract):
    """BayesianNetwork.add_cpds(cpd) on a model that holds at most one CPD per variable:
       ValueError exactly when the object is not a TabularCPD / ContinuousFactor or its scope names a non-node (nothing changes);
       otherwise the list holds the new CPD, every old CPD of another variable, nothing else - so it still holds at most one CPD
       per variable, and the CPD of that variable is the new one.  The graph is not modified."""
    file = "pgmpy/models/BayesianNetwork.py"
    qual = "BayesianNetwork.add_cpds"

    def variants(self, ex):
        g = new_bn()
        L = Coll("list", Opaque, z3.Const("cpds", set_sort(Opaque)))
        L.len_z = z3.Int("n_cpds")
        g.fields["cpds"] = L
        yield "one-cpd", {"self": g}, {"positional": [g, Scalar(z3.Const("new_cpd", Opaque), "CPD")]}

    var = z3.Function("cpd_variable", Opaque, Atom)
    scope = z3.Function("opaque_scope", Opaque, set_sort(Atom))
    is_cpd = z3.Function("cpd_isinstance_ContinuousFactor_TabularCPD", Opaque, B)

    def unique(self, mem):
        c, d = fresh("c", Opaque), fresh("d", Opaque)
        return z3.ForAll([c, d], z3.Implies(z3.And(mem[c], mem[d], self.var(c) == self.var(d)), c == d))

    def inj(self, ex, st, L):
        """no two positions of the list hold CPDs of the same variable (in particular no object twice)"""
        at, _ = ex.seq_of(L, st)
        i, j = fresh("i", z3.IntSort()), fresh("j", z3.IntSort())
        return z3.ForAll([i, j], z3.Implies(z3.And(0 <= i, i < L.len_z, 0 <= j, j < L.len_z, self.var(at(i)) == self.var(at(j))), i == j))

    def pre(self, ex, st, args):
        from vf.pyvc.engine import nonempty
        L = args["self"].fields["cpds"]
        return z3.And(wf_graph(args["self"]), self.inj(ex, st, L), L.len_z >= 0, (L.len_z == 0) == z3.Not(nonempty(L.mem, Opaque)))

    def snapshot(self, ex, st, args):
        old = graph_snapshot(args["self"])
        old["cpds"] = args["self"].fields["cpds"].mem
        return old

    def new(self, st):
        return st.env["cpds"].items[0].z

    def havoc(self, ex, st, args):
        L = args["self"].fields["cpds"]
        L.mem, L.items, L.len_z, L.seq = fresh("cpds_after", set_sort(Opaque)), None, None, None

    def raises(self, ex, st, args):
        c = self.new(st)
        x = fresh("x", Atom)
        return {"ValueError": z3.Or(z3.Not(self.is_cpd(c)), z3.Exists([x], z3.And(self.scope(c)[x], z3.Not(N_(args["self"], x)))))}

    def on_raise(self, ex, st, args, old, exc):
        y = fresh("y", Opaque)
        return z3.And(graph_unchanged(args["self"], old), z3.ForAll([y], args["self"].fields["cpds"].mem[y] == old["cpds"][y]))

    def post(self, ex, st, args, old, result):
        g = args["self"]
        c = self.new(st)
        M, L0 = g.fields["cpds"].mem, old["cpds"]
        y = fresh("y", Opaque)
        return {"content": z3.ForAll([y], M[y] == z3.Or(y == c, z3.And(L0[y], self.var(y) != self.var(c)))),
                "one-cpd-per-variable": self.unique(M),
                "one-position-per-variable": self.inj(ex, st, g.fields["cpds"]),
                "graph-untouched": graph_unchanged(g, old)}

    # loop 1: for prev_cpd_index in range(len(self.cpds))  /  for prev_cpd_index, prev_cpd in enumerate(self.cpds)   (loop 0, over the argument tuple, is unrolled)
    def inv1(self, ex, st, args, old, ghost):
        g = args["self"]
        L = g.fields["cpds"]
        at, _ = ex.seq_of(L, st)
        done = ghost["done"]
        c = self.new(st)
        n0 = z3.Int("n_cpds")   # the length at entry: the list is only written immediately before `break`
        i, y = fresh("i", z3.IntSort()), fresh("y", Opaque)
        dom = done.sort().domain()
        if dom != z3.IntSort():
            # the same loop written `for prev_cpd_index, prev_cpd in enumerate(self.cpds)`: the elements are the pairs (i, cpds[i])
            mk, e = dom.constructor(0), fresh("e", Opaque)
            return z3.And(graph_unchanged(g, old), z3.ForAll([y], L.mem[y] == old["cpds"][y]), self.inj(ex, st, L), L.len_z == n0,
                          z3.ForAll([i, e], ghost["iter"][mk(i, e)] == z3.And(0 <= i, i < n0, e == at(i))),
                          z3.ForAll([i, e], z3.Implies(done[mk(i, e)], z3.And(0 <= i, i < n0, e == at(i), self.var(e) != self.var(c)))),
                          # the same two facts instantiated at e = at(i) (consequences; stated so that the solver has the pair terms)
                          z3.ForAll([i], ghost["iter"][mk(i, at(i))] == z3.And(0 <= i, i < n0), patterns=[at(i)]),
                          z3.ForAll([i], z3.Implies(done[mk(i, at(i))], self.var(at(i)) != self.var(c)), patterns=[at(i)]))
        return z3.And(graph_unchanged(g, old), z3.ForAll([y], L.mem[y] == old["cpds"][y]), self.inj(ex, st, L), L.len_z == n0,
                      z3.ForAll([i], ghost["iter"][i] == z3.And(0 <= i, i < n0)),
                      z3.ForAll([i], z3.Implies(done[i], z3.And(0 <= i, i < n0, self.var(at(i)) != self.var(c)))))

    invariants = property(lambda self: {1: self.inv1})


register(BNAddCpds())


class BNRemoveCpds(Contract):
    """BayesianNetwork.remove_cpds(cpd) with an attached CPD object (the list holds no object twice): afterwards the list holds exactly
    the other CPDs and the graph is untouched.  (An object that is not attached makes list.remove raise ValueError - precondition here;
    the form remove_cpds(node_name) goes through get_cpds; both are covered by the bounded groups.)"""
    file = "pgmpy/models/BayesianNetwork.py"
    qual = "BayesianNetwork.remove_cpds"

    def variants(self, ex):
        g = new_bn()
        g.fields["cpds"] = Coll("list", Opaque, z3.Const("cpds", set_sort(Opaque)), nodup=True)
        yield "cpd-object", {"self": g}, {"positional": [g, Scalar(z3.Const("the_cpd", Opaque), "BaseFactor")]}

    def pre(self, ex, st, args):
        return z3.And(wf_graph(args["self"]), args["self"].fields["cpds"].mem[z3.Const("the_cpd", Opaque)])

    def snapshot(self, ex, st, args):
        old = graph_snapshot(args["self"])
        old["cpds"] = args["self"].fields["cpds"].mem
        return old

    def havoc(self, ex, st, args):
        L = args["self"].fields["cpds"]
        L.mem, L.items, L.len_z, L.seq = fresh("cpds_after", set_sort(Opaque)), None, None, None

    def the(self, st):
        return st.env["cpds"].items[0].z

    def post(self, ex, st, args, old, result):
        y = fresh("y", Opaque)
        c = self.the(st)
        return {"content": z3.ForAll([y], args["self"].fields["cpds"].mem[y] == z3.And(old["cpds"][y], y != c)),
                "graph-untouched": graph_unchanged(args["self"], old)}


register(BNRemoveCpds())


class MNAddFactors(Contract):
    """MarkovNetwork.add_factors(factor): ValueError exactly when the factor mentions a variable that is not a node (nothing changes);
    otherwise the factor list holds the old factors and the new one; the graph is never modified."""
    file = "pgmpy/models/MarkovNetwork.py"
    qual = "MarkovNetwork.add_factors"

    fvars = z3.Function("cpd_variables", Opaque, set_sort(Atom))

    def variants(self, ex):
        g = new_graph("MarkovNetwork", "mn", directed=False, latents=False)
        g.fields["factors"] = Coll("list", Opaque, z3.Const("factors", set_sort(Opaque)))
        yield "one-factor", {"self": g}, {"positional": [g, Scalar(z3.Const("new_factor", Opaque), "CPD")]}

    def pre(self, ex, st, args):
        return wf_graph(args["self"])

    def snapshot(self, ex, st, args):
        old = graph_snapshot(args["self"])
        old["factors"] = args["self"].fields["factors"].mem
        return old

    def havoc(self, ex, st, args):
        L = args["self"].fields["factors"]
        L.mem, L.items, L.len_z, L.seq = fresh("factors_after", set_sort(Opaque)), None, None, None

    def raises(self, ex, st, args):
        f = st.env["factors"].items[0].z
        x = fresh("x", Atom)
        return {"ValueError": z3.Exists([x], z3.And(self.fvars(f)[x], z3.Not(N_(args["self"], x))))}

    def on_raise(self, ex, st, args, old, exc):
        y = fresh("y", Opaque)
        return z3.And(graph_unchanged(args["self"], old), z3.ForAll([y], args["self"].fields["factors"].mem[y] == old["factors"][y]))

    def post(self, ex, st, args, old, result):
        f = st.env["factors"].items[0].z
        y = fresh("y", Opaque)
        return {"content": z3.ForAll([y], args["self"].fields["factors"].mem[y] == z3.Or(old["factors"][y], y == f)),
                "graph-untouched": graph_unchanged(args["self"], old)}


register(MNAddFactors())


# --------------------------------------------------------------------------------------------------- cluster graph / junction tree
def clique(name):
    return atom(name, "clique")


def disjoint_labels(u, v):
    from vf.pyvc.engine import label_members
    x = fresh("x", Atom)
    return z3.Not(z3.Exists([x], z3.And(label_members(u)[x], label_members(v)[x])))


def ug_edge_added(g, old, u, v):
    a, b = fresh("a", Atom), fresh("b", Atom)
    return [z3.ForAll([a, b], g.fields["@E"][a, b] == z3.Or(old["@E"][a, b], z3.And(a == u, b == v), z3.And(a == v, b == u))),
            z3.ForAll([a], g.fields["@nodes"][a] == z3.Or(old["@nodes"][a], a == u, a == v)), wf_graph(g)]


class ClusterGraphAddEdge(Contract):
    """ClusterGraph.add_edge(u, v) on clique labels: ValueError exactly when the two cliques share no variable (graph unchanged);
    otherwise exactly the undirected edge u - v (and its endpoints) is added."""
    file = "pgmpy/models/ClusterGraph.py"
    qual = "ClusterGraph.add_edge"
    raises_leave_state = True

    def variants(self, ex):
        for cls in ("ClusterGraph",):
            g = new_graph(cls, "cg", directed=False, latents=False)
            yield "any", {"self": g, "u": clique("u"), "v": clique("v")}, {}

    def pre(self, ex, st, args):
        return wf_graph(args["self"])

    def snapshot(self, ex, st, args):
        return graph_snapshot(args["self"])

    def havoc(self, ex, st, args):
        havoc_graph(args["self"], "cg", latents=False)

    def raises(self, ex, st, args):
        return {"ValueError": disjoint_labels(args["u"].z, args["v"].z)}

    def on_raise(self, ex, st, args, old, exc):
        return graph_unchanged(args["self"], old)

    def post(self, ex, st, args, old, result):
        e, n, w = ug_edge_added(args["self"], old, args["u"].z, args["v"].z)
        return {"edges": e, "nodes": n, "wf": w}


register(ClusterGraphAddEdge())


class JunctionTreeAddEdge(Contract):
    """JunctionTree.add_edge(u, v): the guard of the forest property.  ValueError exactly for u == v, for two nodes of the tree that are
    already connected, or (from ClusterGraph.add_edge) for cliques without a common variable - the tree is unchanged then; otherwise
    exactly the edge u - v is added, and it joins two different components (so no cycle is closed: a forest stays a forest - that last
    step is the textbook fact, not proved here; the forest property over histories is checked by the bounded group history_JT)."""
    file = "pgmpy/models/JunctionTree.py"
    qual = "JunctionTree.add_edge"
    propagates = ("ClusterGraph.add_edge",)

    def variants(self, ex):
        g = new_graph("JunctionTree", "jt", directed=False, latents=False)
        yield "any", {"self": g, "u": clique("u"), "v": clique("v")}, {}

    def pre(self, ex, st, args):
        return wf_graph(args["self"])

    def snapshot(self, ex, st, args):
        return graph_snapshot(args["self"])

    def havoc(self, ex, st, args):
        havoc_graph(args["self"], "jt", latents=False)

    def connected0(self, ex, args, old):
        g, u, v = args["self"], args["u"].z, args["v"].z
        return z3.And(old["@nodes"][u], old["@nodes"][v], ex.lib.theory(ex).path(old["@E"])(u, v))

    def raises(self, ex, st, args):
        u, v = args["u"].z, args["v"].z
        old = graph_snapshot(args["self"])
        return {"ValueError": z3.Or(u == v, self.connected0(ex, args, old), disjoint_labels(u, v))}

    def on_raise(self, ex, st, args, old, exc):
        return graph_unchanged(args["self"], old)

    def post(self, ex, st, args, old, result):
        e, n, w = ug_edge_added(args["self"], old, args["u"].z, args["v"].z)
        return {"edges": e, "nodes": n, "wf": w, "joins-two-components": z3.Not(self.connected0(ex, args, old)),
                "no-self-loop": args["u"].z != args["v"].z}


register(JunctionTreeAddEdge())


class FGAddEdge(MNAddEdge):
    """FactorGraph.add_edge: same guard and effect as MarkovNetwork.add_edge (no self loops; exactly the undirected edge is added)."""
    file = "pgmpy/models/FactorGraph.py"
    qual = "FactorGraph.add_edge"

    def variants(self, ex):
        g = new_graph("FactorGraph", "fg", directed=False, latents=False)
        yield "any", {"self": g, "u": atom("u"), "v": atom("v")}, {}


register(FGAddEdge())
