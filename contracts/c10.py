"""Sidecar contracts for C10 (structure scores).

StructureScore.score:  score(model) = sum over nodes of local_score(node, parents(node)) + structure_prior(model)
local_score / structure_prior are uninterpreted pure functions here (their closed forms are decided by the
bounded groups of C10); the finite sum is a ghost function Sum over node sets with its two defining equations
    Sum({}) = 0        x notin S  =>  Sum(S u {x}) = Sum(S) + local_score(x, Pa(x))
instantiated where needed (each instance is a theorem about finite sums).
"""
import z3

from vf.pyvc.engine import Atom, B, R, Coll, Contract, NONE, Obj, OpaqueFn, Scalar, empty_set, fresh, register, set_sort
from vf.pyvc.lib import N_, new_graph, wf_graph

from .common import graph_snapshot, graph_unchanged

SetA = set_sort(Atom)


def scorer(cls="StructureScore"):
    return Obj(cls, {"__opaque__": {"local_score": OpaqueFn("local_score", R), "structure_prior": OpaqueFn("structure_prior", R)}})


class Score(Contract):
    pure = True   # does not modify any pre-existing object
    file = "pgmpy/estimators/StructureScore.py"
    qual = "StructureScore.score"
    Sum = z3.Function("SumLocalScores", SetA, R)

    def variants(self, ex):
        yield "any", {"self": scorer(), "model": new_graph("DAG", "g")}, {}

    def pre(self, ex, st, args):
        return wf_graph(args["model"])

    def snapshot(self, ex, st, args):
        return graph_snapshot(args["model"])

    def ls(self, ex, st, args, x):
        g = args["model"]
        a = fresh("a", Atom)
        pa = Coll("list", Atom, z3.Lambda([a], g.fields["@E"][a, x]), nodup=True)
        return ex.call_opaque(args["self"].fields["__opaque__"]["local_score"], [Scalar(x), pa], {}, st).z

    def post(self, ex, st, args, old, result):
        if not isinstance(result, Scalar):
            return z3.BoolVal(False)
        prior = ex.call_opaque(args["self"].fields["__opaque__"]["structure_prior"], [args["model"]], {}, st).z
        rz = result.z if result.z.sort() == R else z3.ToReal(result.z)
        return z3.And(rz == self.Sum(old["@nodes"]) + prior, graph_unchanged(args["model"], old))

    def inv0(self, ex, st, args, old, ghost):
        D = ghost["done"]
        score = st.env["score"].z
        score = score if score.sort() == R else z3.ToReal(score)
        # ghost lemma instances for the finite sum
        st.assume(self.Sum(empty_set(Atom)) == 0)
        if z3.is_store(D):
            d0, x = D.arg(0), D.arg(1)
            st.assume(z3.Implies(z3.Not(d0[x]), self.Sum(D) == self.Sum(d0) + self.ls(ex, st, args, x)))
        return z3.And(score == self.Sum(D), graph_unchanged(args["model"], old))

    invariants = property(lambda self: {0: self.inv0})


register(Score())
