"""Sidecar contract for C12: PDAG.to_dag (consistent extension, Dor & Tarsi) - structural part.

A PDAG object stores undirected edges in both directions: E(a,b) <=> D(a,b) \\/ U(a,b) \\/ U(b,a)  (class invariant, precondition).
Proved for every PDAG (extendable or not, with the default required_edges):
  * the result is a DAG object on exactly the PDAG's nodes with the PDAG's latent set,
  * every edge of the result is an edge of the PDAG in that direction (so the skeleton is not enlarged and a directed PDAG edge is
    never reversed),
  * every directed PDAG edge is kept,
  * no PDAG adjacency is lost: for every PDAG edge one of the two orientations is in the result, and never both,
  * the receiver is not modified.
Acyclicity of the result and "no new v-structure" for extendable inputs are the Dor-Tarsi theorem; they stay with the bounded group.
"""
import z3

from vf.pyvc.engine import Atom, B, Coll, Contract, NONE, Obj, Scalar, empty_set, fresh, register, set_sort, z3_of
from vf.pyvc.lib import N_, PairAA, new_graph, wf_graph

from .common import graph_snapshot, graph_unchanged


class PDAGToDag(Contract):
    file = "pgmpy/base/DAG.py"
    qual = "PDAG.to_dag"
    pure = True

    def variants(self, ex):
        g = new_graph("PDAG", "p")
        g.fields["directed_edges"] = Coll("set", PairAA, z3.Const("D", set_sort(PairAA)))
        g.fields["undirected_edges"] = Coll("set", PairAA, z3.Const("U", set_sort(PairAA)))
        yield "default", {"self": g}, {}

    def pre(self, ex, st, args):
        g = args["self"]
        D, U, E = g.fields["directed_edges"].mem, g.fields["undirected_edges"].mem, g.fields["@E"]
        a, b = fresh("a", Atom), fresh("b", Atom)
        return z3.And(wf_graph(g),
                      z3.ForAll([a], z3.Not(E[a, a])),   # no self loops
                      z3.ForAll([a, b], E[a, b] == z3.Or(D[PairAA.mk(a, b)], U[PairAA.mk(a, b)], U[PairAA.mk(b, a)])),
                      # a directed edge is not also an undirected one, in either orientation (class invariant of PDAG objects)
                      z3.ForAll([a, b], z3.Implies(D[PairAA.mk(a, b)], z3.Not(z3.Or(D[PairAA.mk(b, a)], U[PairAA.mk(a, b)], U[PairAA.mk(b, a)])))))

    def snapshot(self, ex, st, args):
        g = args["self"]
        old = graph_snapshot(g)
        old["D"], old["U"] = g.fields["directed_edges"].mem, g.fields["undirected_edges"].mem
        return old

    # ---- the relation between the growing dag, the shrinking working copy and the receiver
    def rel(self, ex, st, args, old, dag, pdag):
        E0, N0, D = old["@E"], old["@nodes"], old["D"]
        a, b = fresh("a", Atom), fresh("b", Atom)
        dE, dN = dag.fields["@E"], dag.fields["@nodes"]
        parts = {
            "dag-nodes": z3.ForAll([a], dN[a] == N0[a]),
            "dag-edges-are-pdag-edges": z3.ForAll([a, b], z3.Implies(dE[a, b], E0[a, b])),
            "directed-kept": z3.ForAll([a, b], z3.Implies(D[PairAA.mk(a, b)], dE[a, b])),
            "one-orientation": z3.ForAll([a, b], z3.Not(z3.And(dE[a, b], dE[b, a]))),
            "latents": z3.ForAll([a], dag.fields["latents"].mem[a] == old["latents"][a]) if dag.fields["latents"].mem is not None
            else z3.ForAll([a], z3.Not(old["latents"][a])),
            "receiver": graph_unchanged(args["self"], old),
        }
        if pdag is not None:
            pE, pN = pdag.fields["@E"], pdag.fields["@nodes"]
            parts["work-nodes"] = z3.ForAll([a], z3.Implies(pN[a], N0[a]))
            parts["work-edges"] = z3.ForAll([a, b], pE[a, b] == z3.And(E0[a, b], pN[a], pN[b]))
            # every PDAG edge with an endpoint already removed from the working copy is oriented in the dag
            parts["removed-covered"] = z3.ForAll([a, b], z3.Implies(z3.And(E0[a, b], z3.Not(z3.And(pN[a], pN[b]))), z3.Or(dE[a, b], dE[b, a])))
            # an edge still in the working copy is in the dag only if it is a directed one
            parts["working-undirected-untouched"] = z3.ForAll([a, b], z3.Implies(z3.And(dE[a, b], pN[a], pN[b]), D[PairAA.mk(a, b)]))
        return parts

    def post(self, ex, st, args, old, result):
        if not isinstance(result, Obj):
            return z3.BoolVal(False)
        E0 = old["@E"]
        a, b = fresh("a", Atom), fresh("b", Atom)
        out = dict(self.rel(ex, st, args, old, result, None))
        out["no-adjacency-lost"] = z3.ForAll([a, b], z3.Implies(E0[a, b], z3.Or(result.fields["@E"][a, b], result.fields["@E"][b, a])))
        out["result-is-a-new-object"] = z3.BoolVal(result is not args["self"])
        return out

    # loop 0: while pdag.number_of_nodes() > 0
    def inv0(self, ex, st, args, old, ghost):
        return z3.And(*self.rel(ex, st, args, old, st.env["dag"], st.env["pdag"]).values())

    # loop 1: for X in pdag.nodes()  - nothing is written before the node is found (the found branch ends with `break`)
    def inv1(self, ex, st, args, old, ghost):
        a = fresh("a", Atom)
        return z3.And(*self.rel(ex, st, args, old, st.env["dag"], st.env["pdag"]).values(), z3.Not(ex.truth_z(st, st.env["found"])),
                      z3.ForAll([a], st.env["pdag"].fields["@nodes"][a] == ghost["iter"][a]))   # the working copy is the one being iterated

    # loop 2: for Y in pdag.predecessors(X): dag.add_edge(Y, X)
    def inv2(self, ex, st, args, old, ghost):
        dag, pdag = st.env["dag"], st.env["pdag"]
        X = z3_of(st.env["X"])
        done = ghost["done"]
        E0, N0, D = old["@E"], old["@nodes"], old["D"]
        pE, pN, dE = pdag.fields["@E"], pdag.fields["@nodes"], dag.fields["@E"]
        a, b = fresh("a", Atom), fresh("b", Atom)
        r = self.rel(ex, st, args, old, dag, pdag)
        r.pop("working-undirected-untouched")
        return z3.And(*r.values(), pN[X],
                      # X has no directed outgoing edge in the working copy (the test that selected it)
                      z3.ForAll([b], z3.Implies(pE[X, b], pE[b, X])),
                      z3.ForAll([a, b], z3.Implies(z3.And(dE[a, b], pN[a], pN[b]), z3.Or(D[PairAA.mk(a, b)], z3.And(b == X, done[a])))),
                      z3.ForAll([a], z3.Implies(done[a], dE[a, X])))

    # loop 3: for X, Y in pdag.edges()  (no sink found: the remaining edges are oriented arbitrarily)
    def inv3(self, ex, st, args, old, ghost):
        dag, pdag = st.env["dag"], st.env["pdag"]
        done = ghost["done"]
        dE, pE = dag.fields["@E"], pdag.fields["@E"]
        a, b = fresh("a", Atom), fresh("b", Atom)
        r = self.rel(ex, st, args, old, dag, pdag)
        r.pop("working-undirected-untouched")
        return z3.And(*r.values(), z3.ForAll([a, b], z3.Implies(done[PairAA.mk(a, b)], z3.Or(dE[a, b], dE[b, a]))))

    invariants = property(lambda self: {0: self.inv0, 1: self.inv1, 2: self.inv2, 3: self.inv3})


register(PDAGToDag())
