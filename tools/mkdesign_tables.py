#!/usr/bin/env python3
"""regenerates the generated tables of DESIGN.md (between the GENERATED markers) from known_findings.json and seeded/*/meta.json"""
import json, glob, os, re
kf = json.load(open('/verif/known_findings.json'))['findings']
out = []
out.append("## 12. Defects found by the checks (generated from known_findings.json)\n")
out.append("Every entry was first reported by a check on the then-current tree with a replayable input (bounded group) "
           "and/or a refuted E1 obligation, then triaged: *fixed* = one minimal unguarded `fix:` commit in /repo (the check passes "
           "afterwards and would report the defect again); *known* = genuine, but not repaired - because an existing test pins the "
           "behaviour, or the repair is not small, or the intended behaviour is a design decision of the maintainers; a known entry "
           "suppresses only violations whose key matches its regex.\n")
out.append("| id | prop | status | what failed | key (regex) |\n|---|---|---|---|---|")
for f in kf:
    st = f"fixed {f['commit']}" if f['kind'] == 'fixed' else "**known**"
    out.append(f"| {f['id']} | {f['property']} | {st} | {f['what']} | `{f['match'][:90]}` |")
out.append("\n## 13. Seeded changes (fresh sub-agents, property text only) and what catches them (generated from seeded/*/meta.json)\n")
out.append("| seed | prop | needs to manifest | detected by | strengthening it triggered |\n|---|---|---|---|---|")
for p in sorted(glob.glob('/verif/seeded/*/meta.json')):
    m = json.load(open(p))
    out.append(f"| {m['seed']} | {m['property']} | {m['needs_to_manifest']} | {m['detected_by']} | {m.get('strengthening') or '-'} |")
txt = "\n".join(out) + "\n"
d = open('/verif/DESIGN.md').read()
a, b = "<!-- GENERATED TABLES BEGIN -->", "<!-- GENERATED TABLES END -->"
if a in d:
    d = d[:d.index(a)] + a + "\n" + txt + b + d[d.index(b) + len(b):]
else:
    d = d + "\n" + a + "\n" + txt + b + "\n"
open('/verif/DESIGN.md', 'w').write(d)
print("tables written:", len(kf), "findings;", len(glob.glob('/verif/seeded/*/meta.json')), "seeds")
