#!/usr/bin/env python3
"""E1 self-test (development aid, not a registered check):  ./.ov/bin/python tools/selftest.py [-k substring]

For every contracted function a few deliberately wrong variants (dropped guard, swapped direction, off-by-one,
removed copy ...) are applied to a scratch copy of /repo (under /dev/shm, removed immediately) and the E1 obligations of
that function are regenerated from the scratch source: at least one obligation must stop discharging (refuted, candidate
or unknown).  Harmless refactors (reordered independent statements, an extra local) must keep every obligation discharged.
"""
import os, re, shutil, subprocess, sys, tempfile, time
sys.path.insert(0, "/verif")

MUTANTS = [  # (contract module, qualname, file, regex, replacement, expect)  expect: "break" | "hold"
 ("contracts.c08", "DAG._get_ancestors_of", "pgmpy/base/DAG.py", r"nodes_list.update\(self.predecessors\(node\)\)", "nodes_list.update(self.successors(node))", "break"),
 ("contracts.c08", "DAG._get_ancestors_of", "pgmpy/base/DAG.py", r"            ancestors_list.add\(node\)", "            pass", "break"),
 ("contracts.c08", "DAG.active_trail_nodes", "pgmpy/base/DAG.py", r'if direction == "up" and node not in observed_list:', 'if direction == "up":', "break"),
 ("contracts.c08", "DAG.active_trail_nodes", "pgmpy/base/DAG.py", r"if node in ancestors_list:", "if node in observed_list:", "break"),
 ("contracts.c08", "DAG.active_trail_nodes", "pgmpy/base/DAG.py", r"if include_latents:", "if not include_latents:", "break"),
 ("contracts.c08", "DAG.active_trail_nodes", "pgmpy/base/DAG.py", r"            traversed_list = set\(\)\n            active_nodes = set\(\)", "            active_nodes = set()\n            traversed_list = set()", "hold"),
 ("contracts.c08", "DAG.get_markov_blanket", "pgmpy/base/DAG.py", r"blanket_nodes.discard\(node\)\n        return list\(blanket_nodes\)\n\n    def active_trail", "return list(blanket_nodes)\n\n    def active_trail", "break"),
 ("contracts.c08", "DAG.moralize", "pgmpy/base/DAG.py", r"itertools.combinations\(self.get_parents\(node\), 2\)", "itertools.combinations(self.get_children(node), 2)", "break"),
 ("contracts.c08", "DAG.minimal_dseparator", "pgmpy/base/DAG.py", r"separator.difference_update\(\{start, end\}\)", "separator.difference_update({start})", "break"),
 ("contracts.c08", "DAG.local_independencies", "pgmpy/base/DAG.py", r"- set\(nx.dfs_preorder_nodes\(self, variable\)\)", "", "break"),
 ("contracts.c15", "BayesianNetwork.add_edge", "pgmpy/models/BayesianNetwork.py", r"nx.has_path\(self, v, u\)", "nx.has_path(self, u, v)", "break"),
 ("contracts.c15", "BayesianNetwork.add_edge", "pgmpy/models/BayesianNetwork.py", r'if u == v:\n            raise ValueError\("Self loops are not allowed."\)', 'if False:\n            raise ValueError("Self loops are not allowed.")', "break"),
 ("contracts.c15", "DAG.do", "pgmpy/base/DAG.py", r"            for parent in parents:\n                dag.remove_edge\(parent, node\)", "            for p_ in parents:\n                dag.remove_edge(p_, node)", "hold"),
 ("contracts.c15", "BayesianNetwork.add_edge", "pgmpy/models/BayesianNetwork.py", r'        if u == v:\n            raise ValueError\("Self loops are not allowed."\)', '        unused_message = "Self loops are not allowed."\n        if v == u:\n            raise ValueError(unused_message)', "hold"),
 ("contracts.c11", "HillClimbSearch._legal_operations", "pgmpy/estimators/HillClimbSearch.py", r"                    old_parents = model.get_parents\(Y\)\n                    new_parents = old_parents \+ \[X\]", "                    current = model.get_parents(Y)\n                    old_parents = current\n                    new_parents = current + [X]", "hold"),
 ("contracts.c15", "BayesianNetwork.remove_node", "pgmpy/models/BayesianNetwork.py", r"self.latents = self.latents - set\(\[node\]\)", "pass", "break"),
 ("contracts.c15", "BayesianNetwork.copy", "pgmpy/models/BayesianNetwork.py", r"model_copy.latents = set\(self.latents\)", "model_copy.latents = self.latents", "break"),
 ("contracts.c15", "DAG.do", "pgmpy/base/DAG.py", r"dag = self if inplace else self.copy\(\)", "dag = self", "break"),
 ("contracts.c15", "DAG.do", "pgmpy/base/DAG.py", r"if not set\(nodes\).issubset\(set\(self.nodes\(\)\)\):", "if not set(nodes).issubset(set(self.nodes())) and False:", "break"),
 ("contracts.c13", "CausalInference.is_valid_backdoor_adjustment_set", "pgmpy/inference/CausalInference.py", r"observed = \[X\] \+ list\(Z_\)", "observed = list(Z_)", "break"),
 ("contracts.c13", "CausalInference.is_valid_backdoor_adjustment_set", "pgmpy/inference/CausalInference.py", r"for p in self.model.predecessors\(X\):", "for p in self.model.successors(X):", "break"),
 ("contracts.c10", "StructureScore.score", "pgmpy/estimators/StructureScore.py", r"score \+= self.structure_prior\(model\)", "pass", "break"),
 ("contracts.c10", "StructureScore.score", "pgmpy/estimators/StructureScore.py", r"list\(model.predecessors\(node\)\)\)", "list(model.successors(node)))", "break"),
 ("contracts.c11", "HillClimbSearch._legal_operations", "pgmpy/estimators/HillClimbSearch.py", r"if not nx.has_path\(model, Y, X\):", "if True:", "break"),
 ("contracts.c11", "HillClimbSearch._legal_operations", "pgmpy/estimators/HillClimbSearch.py", r"and \(\(Y, X\) not in black_list\)", "and ((X, Y) not in black_list)", "break"),
 ("contracts.c11", "HillClimbSearch._legal_operations", "pgmpy/estimators/HillClimbSearch.py", r"if len\(new_X_parents\) <= max_indegree:", "if len(old_Y_parents) <= max_indegree:", "break"),
 ("contracts.c01", "BaseEliminationOrder.get_elimination_order", "pgmpy/inference/EliminationOrder.py", r"ordering.append\(min_score_node\)\n", "ordering.append(min_score_node); ordering.append(min_score_node)\n", "break"),
 ("contracts.c01", "VariableElimination._get_elimination_order", "pgmpy/inference/ExactInference.py", r"            return to_eliminate\n", "            return set(self.variables) - set(variables)\n", "break"),
 ("contracts.c14", "BayesianNetwork.to_markov_model", "pgmpy/models/BayesianNetwork.py", r"mm = MarkovNetwork\(moral_graph.edges\(\)\)", "mm = MarkovNetwork(self.to_undirected().edges())", "break"),
 ("contracts.c18", "Independencies.closure.<locals>.sg1", "pgmpy/independencies/Independencies.py", r"IndependenceAssertion\(ind.event1, ind.event2 - \{elem\}, ind.event3\)", "IndependenceAssertion(ind.event1, ind.event2 - {elem}, ind.event3 | {elem} if False else ind.event1)", "break"),
 ("contracts.c18", "IndependenceAssertion.__eq__", "pgmpy/independencies/Independencies.py", r"self.event2,\n            self.event1,\n            self.event3,\n        \) == other.get_assertion\(\)", "self.event2,\n            self.event1,\n            self.event2,\n        ) == other.get_assertion()", "break"),
 ("contracts.c18", "DAG.is_iequivalent.<locals>.v_structures", "pgmpy/base/DAG.py", r"                and not dag.has_edge\(parents\[1\], parents\[0\]\)\n", "", "break"),
 ("contracts.c18", "DAG.get_immoralities", "pgmpy/base/DAG.py", r"immoralities.add\(tuple\(sorted\(parents\)\)\)", "immoralities.add(tuple(parents))", "break"),
 ("contracts.c15", "DynamicBayesianNetwork.add_edge", "pgmpy/models/DynamicBayesianNetwork.py", r"and nx.has_path\(self, end, start\)", "and nx.has_path(self, start, end)", "break"),
 ("contracts.c15", "DynamicBayesianNetwork.add_edge", "pgmpy/models/DynamicBayesianNetwork.py", r"DynamicNode\(start\[0\], 1 - start\[1\]\), DynamicNode\(end\[0\], 1 - end\[1\]\)", "DynamicNode(end[0], 1 - end[1]), DynamicNode(start[0], 1 - start[1])", "break"),
 ("contracts.c15", "DynamicBayesianNetwork.add_edge", "pgmpy/models/DynamicBayesianNetwork.py", r'        if start == end:\n            raise ValueError\("Self Loops are not allowed"\)\n        elif', '        if False:\n            raise ValueError("Self Loops are not allowed")\n        elif', "break"),
 ("contracts.c15", "DAG.add_edges_from", "pgmpy/base/DAG.py", r"self.add_edge\(ebunch\[index\]\[0\], ebunch\[index\]\[1\], weight=weights\[index\]\)", "super(DAG, self).add_edge(ebunch[index][0], ebunch[index][1], weight=weights[index])", "break"),
 ("contracts.c15", "DAG.add_edges_from", "pgmpy/base/DAG.py", r"for index in range\(len\(ebunch\)\):", "for index in range(len(ebunch) - 1):", "break"),
 ("contracts.c15", "DAG.add_edges_from", "pgmpy/base/DAG.py", r"self.add_edge\(edge\[0\], edge\[1\]\)", "self.add_edge(edge[1], edge[0])", "break"),
 ("contracts.c15", "DAG.add_edges_from", "pgmpy/base/DAG.py", r"            for edge in ebunch:\n                self.add_edge\(edge\[0\], edge\[1\]\)", "            for pair in ebunch:\n                tail, head = pair[0], pair[1]\n                self.add_edge(tail, head)", "hold"),
 ("contracts.c08", "DAG.local_independencies", "pgmpy/base/DAG.py", r"        independencies = Independencies\(\)\n        for variable in \(\n            variables if isinstance\(variables, \(list, tuple\)\) else \[variables\]\n        \):\n            non_descendents = \(\n                set\(self.nodes\(\)\)\n                - \{variable\}\n                - set\(nx.dfs_preorder_nodes\(self, variable\)\)\n            \)", "        independencies = Independencies()\n        descendents = set()\n        for variable in (\n            variables if isinstance(variables, (list, tuple)) else [variables]\n        ):\n            descendents.update(nx.dfs_preorder_nodes(self, variable))\n            non_descendents = set(self.nodes()) - {variable} - descendents", "break"),
 ("contracts.c11", "HillClimbSearch.estimate", "pgmpy/estimators/HillClimbSearch.py", r"tabu_list = deque\(maxlen=tabu_length\)", "tabu_list = deque(maxlen=tabu_length or None)", "break"),
 ("contracts.c11", "HillClimbSearch.estimate", "pgmpy/estimators/HillClimbSearch.py", r"if best_operation is None or best_score_delta < epsilon:", "if best_operation is None or best_score_delta <= epsilon:", "break"),
 ("contracts.c11", "HillClimbSearch.estimate", "pgmpy/estimators/HillClimbSearch.py", r"                current_model.remove_edge\(X, Y\)\n                current_model.add_edge\(Y, X\)", "                current_model.add_edge(Y, X)", "break"),
 ("contracts.c11", "HillClimbSearch.estimate", "pgmpy/estimators/HillClimbSearch.py", r"            start_dag = start_dag.copy\(\)", "            pass", "break"),
 ("contracts.c11", "HillClimbSearch.estimate", "pgmpy/estimators/HillClimbSearch.py", r"            if not nx.is_directed_acyclic_graph\(start_dag\):", "            if False:", "break"),
 ("contracts.c11", "HillClimbSearch.estimate", "pgmpy/estimators/HillClimbSearch.py", r"                key=lambda t: t\[1\],", "                key=lambda t: -t[1],", "break"),
 ("contracts.c11", "HillClimbSearch.estimate", "pgmpy/estimators/HillClimbSearch.py", r'                tabu_list.append\(\("-", best_operation\[1\]\)\)', '                tabu_list.append(("-", best_operation[1])); last_added = best_operation[1]', "hold"),
 ("contracts.c01", "Inference._prune_bayesian_model", "pgmpy/inference/base.py", r"variables=variables, observed=list\(evidence.keys\(\)\), include_latents=True", "variables=variables, include_latents=True", "break"),
 ("contracts.c01", "Inference._prune_bayesian_model", "pgmpy/inference/base.py", r"d_connected = set.union\(\*d_connected.values\(\)\).union\(evidence.keys\(\)\)", "d_connected = set.union(*d_connected.values())", "break"),
 ("contracts.c01", "Inference._prune_bayesian_model", "pgmpy/inference/base.py", r"bn = bn.get_ancestral_graph\(list\(variables\) \+ list\(evidence.keys\(\)\)\)", "bn = bn.get_ancestral_graph(list(variables))", "break"),
 ("contracts.c01", "Inference._prune_bayesian_model", "pgmpy/inference/base.py", r"        bn = self.model.subgraph\(d_connected\)\n        evidence = ", "        reachable = d_connected\n        bn = self.model.subgraph(reachable)\n        evidence = ", "hold"),
 ("contracts.c15", "DAG.add_node", "pgmpy/base/DAG.py", r"        if latent:\n            self.latents.add\(node\)\n\n        super\(DAG, self\).add_node", "        super(DAG, self).add_node", "break"),
 ("contracts.c15", "DAG.add_nodes_from", "pgmpy/base/DAG.py", r"                self.add_node\(node=nodes\[index\], latent=latent\[index\]\)", "                self.add_node(node=nodes[0], latent=latent[index])", "break"),
 ("contracts.c15", "UndirectedGraph.add_edges_from", "pgmpy/base/UndirectedGraph.py", r"            for edge in ebunch:\n                self.add_edge\(edge\[0\], edge\[1\]\)", "            for edge in ebunch:\n                self.add_edge(edge[0], edge[0])", "break"),
 ("contracts.c13", "CausalInference.get_all_backdoor_adjustment_sets", "pgmpy/inference/CausalInference.py", r"if self.is_valid_backdoor_adjustment_set\(X, Y, s\):", "if not self.is_valid_backdoor_adjustment_set(X, Y, s):", "break"),
 ("contracts.c13", "CausalInference.get_all_backdoor_adjustment_sets", "pgmpy/inference/CausalInference.py", r"            - set\(nx.descendants\(self.model, X\)\)\n", "\n", "break"),
 ("contracts.c13", "CausalInference.get_all_backdoor_adjustment_sets", "pgmpy/inference/CausalInference.py", r"super_of_complete.append\(vs.intersection\(set\(s\)\) == vs\)", "super_of_complete.append(vs.intersection(set(s)) == set(s))", "break"),
 ("contracts.c13", "CausalInference.get_all_backdoor_adjustment_sets", "pgmpy/inference/CausalInference.py", r"            if any\(super_of_complete\):\n                continue\n", "", "hold"),
 ("contracts.c13", "CausalInference.is_valid_frontdoor_adjustment_set", "pgmpy/inference/CausalInference.py", r"if not all\(valid_backdoor_sets\):", "if not any(valid_backdoor_sets):", "break"),
 ("contracts.c13", "CausalInference.is_valid_frontdoor_adjustment_set", "pgmpy/inference/CausalInference.py", r"path for path in directed_paths if not any\(zz in path for zz in Z\)", "path for path in directed_paths if not all(zz in path for zz in Z)", "break"),
 ("contracts.c13", "CausalInference.is_valid_frontdoor_adjustment_set", "pgmpy/inference/CausalInference.py", r"valid_backdoor_sets.append\(self.is_valid_backdoor_adjustment_set\(zz, Y, X\)\)", "valid_backdoor_sets.append(self.is_valid_backdoor_adjustment_set(zz, Y))", "break"),
 ("contracts.c13", "CausalInference.is_valid_frontdoor_adjustment_set", "pgmpy/inference/CausalInference.py", r"        if directed_paths == \[\]:\n            return False\n", "", "break"),
 ("contracts.c13", "CausalInference.get_all_frontdoor_adjustment_sets", "pgmpy/inference/CausalInference.py", r"possible_adjustment_variables = set\(self.observed_variables\) - \{X\} - \{Y\}\n\n        valid_adjustment_sets = frozenset", "possible_adjustment_variables = set(self.observed_variables) - {X}\n\n        valid_adjustment_sets = frozenset", "break"),
 ("contracts.c18", "Independencies.entails", "pgmpy/independencies/Independencies.py", r"        return all\(\n            ind in implications for ind in entailed_independencies.get_assertions\(\)", "        return any(\n            ind in implications for ind in entailed_independencies.get_assertions()", "break"),
 ("contracts.c18", "Independencies.entails", "pgmpy/independencies/Independencies.py", r"implications = self.closure\(\).get_assertions\(\)", "implications = self.get_assertions()", "break"),
 ("contracts.c18", "Independencies.is_equivalent", "pgmpy/independencies/Independencies.py", r"return self.entails\(other\) and other.entails\(self\)", "return self.entails(other) or other.entails(self)", "break"),
 ("contracts.c18", "Independencies.contains", "pgmpy/independencies/Independencies.py", r"return assertion in self.get_assertions\(\)", "return assertion not in self.get_assertions()", "break"),
 ("contracts.c08", "DAG.get_independencies", "pgmpy/base/DAG.py", r"                        rest\n                        - set\(observed\)\n", "                        rest\n", "break"),
 ("contracts.c08", "DAG.get_independencies", "pgmpy/base/DAG.py", r"for r in range\(len\(rest\)\):", "for r in range(len(rest) - 1):", "break"),
 ("contracts.c08", "DAG.get_independencies", "pgmpy/base/DAG.py", r"if d_seperated_variables:", "if not d_seperated_variables:", "break"),
 ("contracts.c05", "BayesianNetwork.check_model", "pgmpy/models/BayesianNetwork.py", r"if set\(evidence\) != set\(parents\):", "if not set(evidence) <= set(parents):", "break"),
 ("contracts.c05", "BayesianNetwork.check_model", "pgmpy/models/BayesianNetwork.py", r"if not cpd.is_valid_cpd\(\):", "if False:", "break"),
 ("contracts.c05", "BayesianNetwork.check_model", "pgmpy/models/BayesianNetwork.py", r"cpd.cardinality\[1 \+ index\]", "cpd.cardinality[index]", "break"),
 ("contracts.c05", "BayesianNetwork.check_model", "pgmpy/models/BayesianNetwork.py", r"if parent_cpd.state_names\[node\] != cpd.state_names\[node\]:", "if parent_cpd.state_names[node] == cpd.state_names[node]:", "break"),
 ("contracts.c08", "DAG.active_trail_nodes", "pgmpy/base/DAG.py", r"        if observed is not None:\n            if isinstance\(observed, set\):", "        if observed:\n            if isinstance(observed, set):", "break"),
 ("contracts.c01", "BaseEliminationOrder.get_elimination_order", "pgmpy/inference/EliminationOrder.py", r"        while nodes:\n            scores = \{node: self.cost\(node\) for node in nodes\}\n            min_score_node = min\(scores, key=scores.get\)\n", "        while True:\n            min_score_node = min(nodes, key=self.cost, default=None)\n            if not min_score_node:\n                break\n", "break"),
 ("contracts.c12", "PDAG.to_dag", "pgmpy/base/DAG.py", r"                    for Y in pdag.predecessors\(X\):\n                        dag.add_edge\(Y, X\)", "                    for Y in pdag.predecessors(X):\n                        dag.add_edge(X, Y)", "break"),
 ("contracts.c12", "PDAG.to_dag", "pgmpy/base/DAG.py", r"if not dag.has_edge\(Y, X\):", "if True:", "break"),
 ("contracts.c12", "PDAG.to_dag", "pgmpy/base/DAG.py", r"        dag.add_edges_from\(self.directed_edges\)\n", "", "break"),
 ("contracts.c12", "PDAG.to_dag", "pgmpy/base/DAG.py", r"                    pdag.remove_node\(X\)\n", "", "break"),
 ("contracts.c15", "BayesianNetwork.get_cpds", "pgmpy/models/BayesianNetwork.py", r"                    if cpd.variable == node:\n                        return cpd", "                    if cpd.variable != node:\n                        return cpd", "break"),
 ("contracts.c15", "BayesianNetwork.get_cpds", "pgmpy/models/BayesianNetwork.py", r'            if node not in self.nodes\(\):\n                raise ValueError\("Node not present in the Directed Graph"\)', '            if False:\n                raise ValueError("Node not present in the Directed Graph")', "break"),
 ("contracts.c15", "BayesianNetwork.add_cpds", "pgmpy/models/BayesianNetwork.py", r"                    self.cpds\[prev_cpd_index\] = cpd\n                    break", "                    self.cpds[prev_cpd_index] = cpd", "break"),
 ("contracts.c15", "BayesianNetwork.add_cpds", "pgmpy/models/BayesianNetwork.py", r"self.cpds\[prev_cpd_index\] = cpd", "self.cpds[0] = cpd", "break"),
 ("contracts.c15", "BayesianNetwork.add_cpds", "pgmpy/models/BayesianNetwork.py", r"            else:\n                self.cpds.append\(cpd\)\n\n    def get_cpds", "            self.cpds.append(cpd)\n\n    def get_cpds", "break"),
 ("contracts.c14", "FactorGraph.to_markov_model", "pgmpy/models/FactorGraph.py", r"mm.add_edges_from\(itertools.combinations\(scope, 2\)\)", "mm.add_edges_from(itertools.combinations(scope[1:], 2))", "break"),
 ("contracts.c14", "FactorGraph.to_markov_model", "pgmpy/models/FactorGraph.py", r"if len\(set\(self.nodes\(\)\) - set\(variable_nodes\)\) != len\(self.factors\):", "if len(set(self.nodes())) != len(self.factors):", "break"),
 ("contracts.c14", "FactorGraph.to_markov_model", "pgmpy/models/FactorGraph.py", r"        mm.add_nodes_from\(variable_nodes\)\n", "        mm.add_nodes_from(self.nodes())\n", "break"),
 ("contracts.c15", "BayesianNetwork.remove_cpds", "pgmpy/models/BayesianNetwork.py", r"self.cpds.remove\(cpd\)", "self.cpds.clear()", "break"),
 ("contracts.c15", "DAG.add_edges_from", "pgmpy/base/DAG.py", r"            for index in range\(len\(ebunch\)\):\n                self.add_edge\(ebunch\[index\]\[0\], ebunch\[index\]\[1\], weight=weights\[index\]\)", "            for index, edge in enumerate(ebunch):\n                self.add_edge(edge[0], edge[1], weight=weights[index])", "hold"),
 ("contracts.c15", "DAG.add_edges_from", "pgmpy/base/DAG.py", r"            for index in range\(len\(ebunch\)\):\n                self.add_edge\(ebunch\[index\]\[0\], ebunch\[index\]\[1\], weight=weights\[index\]\)", "            for index, edge in enumerate(ebunch):\n                if index:\n                    self.add_edge(edge[0], edge[1], weight=weights[index])", "break"),
 ("contracts.c08", "DAG.active_trail_nodes", "pgmpy/base/DAG.py", r"            if include_latents:\n                active_trails\[start\] = active_nodes\n            else:\n                active_trails\[start\] = active_nodes - self.latents", "            if not include_latents:\n                active_nodes = active_nodes - self.latents\n            active_trails[start] = active_nodes", "hold"),
 ("contracts.c15", "BayesianNetwork.add_cpds", "pgmpy/models/BayesianNetwork.py", r"            for prev_cpd_index in range\(len\(self.cpds\)\):\n                if self.cpds\[prev_cpd_index\].variable == cpd.variable:", "            for prev_cpd_index, prev_cpd in enumerate(self.cpds):\n                if prev_cpd.variable == cpd.variable:", "hold"),
 ("contracts.c15", "BayesianNetwork.add_cpds", "pgmpy/models/BayesianNetwork.py", r"            for prev_cpd_index in range\(len\(self.cpds\)\):\n                if self.cpds\[prev_cpd_index\].variable == cpd.variable:", "            for prev_cpd_index, prev_cpd in enumerate(self.cpds[1:]):\n                if prev_cpd.variable == cpd.variable:", "break"),
 ("contracts.c08", "DAG._get_ancestors_of", "pgmpy/base/DAG.py", r"        ancestors_list = set\(\)\n        nodes_list = set\(nodes\)\n        while nodes_list:\n            node = nodes_list.pop\(\)\n            if node not in ancestors_list:\n                nodes_list.update\(self.predecessors\(node\)\)\n            ancestors_list.add\(node\)\n        return ancestors_list", "        ancestors = set()\n        to_visit = set(nodes)\n        while to_visit:\n            node = to_visit.pop()\n            if node in ancestors:\n                continue\n            to_visit.update(self.predecessors(node))\n            ancestors.add(node)\n        return ancestors", "hold"),
 ("contracts.c08", "DAG._get_ancestors_of", "pgmpy/base/DAG.py", r"        ancestors_list = set\(\)\n        nodes_list = set\(nodes\)\n        while nodes_list:\n            node = nodes_list.pop\(\)\n            if node not in ancestors_list:\n                nodes_list.update\(self.predecessors\(node\)\)\n            ancestors_list.add\(node\)\n        return ancestors_list", "        ancestors = set()\n        to_visit = set(nodes)\n        while to_visit:\n            node = to_visit.pop()\n            if node in ancestors:\n                continue\n            to_visit.update(self.successors(node))\n            ancestors.add(node)\n        return ancestors", "break"),
 ("contracts.c15", "BayesianNetwork.remove_nodes_from", "pgmpy/models/BayesianNetwork.py", r"        for node in nodes:\n            self.remove_node\(node\)\n", "        for node in nodes:\n            if node in self.latents:\n                continue\n            self.remove_node(node)\n", "break"),
 ("contracts.c15", "BayesianNetwork.remove_nodes_from", "pgmpy/models/BayesianNetwork.py", r"        for node in nodes:\n            self.remove_node\(node\)\n", "        for node in nodes:\n            self.remove_node(node)\n            break\n", "break"),
 ("contracts.c15", "BayesianNetwork.remove_nodes_from", "pgmpy/models/BayesianNetwork.py", r"        for node in nodes:\n            self.remove_node\(node\)\n", "        for vanishing in nodes:\n            self.remove_node(vanishing)\n", "hold"),
 ("contracts.c15", "JunctionTree.add_edge", "pgmpy/models/JunctionTree.py", r"if u in self.nodes\(\) and v in self.nodes\(\) and nx.has_path\(self, u, v\):", "if u in self.nodes() and v in self.nodes() and self.has_edge(u, v):", "break"),
 ("contracts.c15", "JunctionTree.add_edge", "pgmpy/models/JunctionTree.py", r'        if u == v:\n            raise ValueError\("Self loops are not allowed"\)\n', "", "break"),
 ("contracts.c15", "JunctionTree.add_edge", "pgmpy/models/JunctionTree.py", r"if u in self.nodes\(\) and v in self.nodes\(\) and nx.has_path\(self, u, v\):", "if v in self.nodes() and u in self.nodes() and nx.has_path(self, v, u):", "hold"),
 ("contracts.c15", "ClusterGraph.add_edge", "pgmpy/models/ClusterGraph.py", r"super\(ClusterGraph, self\).add_edge\(u, v\)", "super(ClusterGraph, self).add_edge(u, u)", "break"),
 ("contracts.c15", "ClusterGraph.add_edge", "pgmpy/models/ClusterGraph.py", r"if set_u.isdisjoint\(set_v\):", "if set_u.isdisjoint(set_v) and set_u:", "break"),
 ("contracts.c15", "FactorGraph.add_edge", "pgmpy/models/FactorGraph.py", r"        if u != v:\n            super\(FactorGraph, self\).add_edge\(u, v, \*\*kwargs\)", "        if True:\n            super(FactorGraph, self).add_edge(u, v, **kwargs)", "break"),
 ("contracts.c15", "FactorGraph.add_edge", "pgmpy/models/FactorGraph.py", r"        if u != v:\n            super\(FactorGraph, self\).add_edge\(u, v, \*\*kwargs\)", "        if u != v:\n            super(FactorGraph, self).add_edge(v, v, **kwargs)", "break"),
 ("contracts.c15", "MarkovNetwork.add_factors", "pgmpy/models/MarkovNetwork.py", r"set\(factor.variables\) - set\(factor.variables\).intersection\(\n                set\(self.nodes\(\)\)\n            \)", "set(factor.variables[1:]) - set(self.nodes())", "break"),
]


def main():
    only = sys.argv[2] if len(sys.argv) > 2 and sys.argv[1] == "-k" else None
    ok = bad = 0
    for mod, qual, rel, pat, rep, expect in MUTANTS:
        if only and only not in qual:
            continue
        d = tempfile.mkdtemp(prefix="verif-selftest-", dir="/dev/shm")
        try:
            os.makedirs(os.path.join(d, os.path.dirname(rel)), exist_ok=True)
            shutil.copytree("/repo/pgmpy", os.path.join(d, "pgmpy"), dirs_exist_ok=True, ignore=shutil.ignore_patterns("tests", "__pycache__"))
            p = os.path.join(d, rel)
            s = open(p).read()
            n = len(re.findall(pat, s))
            if n != 1:
                print(f"SKIP  {qual}: pattern matches {n} times: {pat[:60]}")
                continue
            open(p, "w").write(re.sub(pat, rep, s, count=1))
            env = dict(os.environ, VERIF_REPO=d)
            r = subprocess.run(["/verif/.ov/bin/python", "/verif/tools/e1try.py", mod, qual], capture_output=True, text=True, env=env, timeout=2400)
            lines = [l for l in r.stdout.splitlines() if re.match(r"^(refuted|refuted-bounded|unknown|UNDECIDED|FAULT)", l)]
            broke = bool(lines)
            verdicts = sorted({l.split()[0] for l in lines})
            good = (broke and expect == "break") or (not broke and expect == "hold")
            print(("ok   " if good else "MISS ") + f"{qual:55s} {expect:5s} -> {'not discharged: ' + ','.join(verdicts) if broke else 'all discharged'}   [{rep[:50]!r}]")
            ok += good
            bad += (not good)
        finally:
            shutil.rmtree(d, ignore_errors=True)
    print(f"selftest: {ok} as expected, {bad} unexpected")
    return 1 if bad else 0


if __name__ == "__main__":
    sys.exit(main())
