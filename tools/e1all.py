"""dev regression: run every E1 target, print per-function status and non-discharged obligations."""
import sys, time
sys.path.insert(0, '/verif')
from vf import core
from vf.pyvc import run
from vf.props.e1_targets import E1
from contracts.common import CLASSES
only = sys.argv[1:]
t0 = time.time()
for prop, (mods, quals) in E1.items():
    if only and prop not in only: continue
    rep = core.Report(prop, "quick", 0, "proof")
    obs = run.verify_functions(rep, mods, quals, CLASSES)
    bad = [o for o in obs if o.verdict != "discharged"]
    print(f"{prop}: {len(obs)} obligations, {len(obs)-len(bad)} discharged, {time.time()-t0:.0f}s;", {q: f.get('status') for q, f in rep.functions.items()})
    for o in bad: print("    ", o.verdict, o.name, f"{o.secs:.1f}s")
    for u in rep.undecided: print("     UNDECIDED", u[:200])
    for f in rep.faults: print("     FAULT", str(f)[:300])
    slow = sorted(obs, key=lambda o: -o.secs)[:4]
    print("     slowest:", ", ".join(f"{o.name.split('/')[-1]}@{o.name.split('[')[0].split('.')[-1]} {o.secs:.1f}s" for o in slow if o.secs > 2.0) or "all < 2s")
