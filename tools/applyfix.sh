#!/bin/bash
# usage: applyfix.sh <patch> <commit message file or string>   (applies to /repo, commits ONLY the files touched by the patch)
set -e
P="$1"; MSG="$2"
cd /repo
git apply --check "$P"
FILES=$(git apply --numstat "$P" | awk '{print $3}')
git apply "$P"
git commit -q -m "$MSG" -- $FILES
git log --oneline | head -1
