#!/bin/bash
# usage: seedtest.sh <Cxx> <variant-dir> [extra check args]  - applies a seeded change to /repo, runs its demo and our check, reverts.
P=$1; D=$2; shift 2
cd /repo || exit 9
if ! git diff --quiet; then echo "REPO DIRTY - abort"; exit 9; fi
echo "=== $P $D"
PYTHONPATH=/repo timeout 300 /venv/bin/python $D/demo.py > /tmp/seed_demo_clean.out 2>&1; echo "demo on clean tree rc=$?"
git apply --check $D/patch.diff || { echo "PATCH DOES NOT APPLY"; exit 8; }
git apply $D/patch.diff
PYTHONPATH=/repo timeout 300 /venv/bin/python $D/demo.py > /tmp/seed_demo_mut.out 2>&1; echo "demo on changed tree rc=$?"
cd /verif && ./check $P "$@" > /tmp/seed_check.out 2>&1; RC=$?
echo "check rc=$RC"; grep -E "^(VIOLATION|UNDECIDED|CHECKER-FAULT)" /tmp/seed_check.out | sed -E 's/replay=[^ ]+ //' | cut -c1-260 | head -6
git -C /repo checkout -- . ; git -C /repo status --short | grep -v model.bif
