#!/bin/bash
# usage: seedtest.sh <Cxx> <variant-dir> [extra check args]
# applies a seeded change to a scratch copy of /repo (same effect as `git -C /repo apply` + undo, without disturbing other
# runs), runs its demo on both trees and our check on the changed tree.
P=$1; D=$2; shift 2
S=/dev/shm/verif-seed-$$
mkdir -p $S && rsync -a --exclude .git --exclude docs --exclude examples /repo/ $S/
echo "=== $P $D"
PYTHONPATH=/repo timeout 300 /venv/bin/python $D/demo.py > /tmp/seed_demo_clean.out 2>&1; echo "demo on clean tree rc=$?"
( cd $S && patch -p1 -s < $D/patch.diff ) || { echo "PATCH DOES NOT APPLY"; rm -rf $S; exit 8; }
( cd $S && PYTHONPATH=$S timeout 300 /venv/bin/python $D/demo.py > /tmp/seed_demo_mut.out 2>&1; echo "demo on changed tree rc=$?" )
cd /verif && VERIF_REPO=$S ./check $P "$@" > /tmp/seed_check_$P.out 2>&1; RC=$?
echo "check rc=$RC"; grep -E "^(VIOLATION|UNDECIDED|CHECKER-FAULT)" /tmp/seed_check_$P.out | sed -E 's/replay=[^ ]+ //' | cut -c1-260 | head -6
rm -rf $S
