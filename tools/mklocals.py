#!/usr/bin/env python
"""Regenerates contracts/locals_baseline.json: for every function under contract, the names of its locals in order of first
assignment in the source the contracts were written against (/repo HEAD at generation time).  The engine uses it to re-map the local
names a sidecar contract mentions when the current source has renamed them (vf/pyvc/engine.py: local_aliases).  Run only after the
contracts have been validated against the tree the baseline is taken from."""
import importlib, json, os, sys
sys.path.insert(0, os.path.dirname(os.path.dirname(os.path.abspath(__file__))))
from vf import core
from vf.pyvc import engine as eng
from vf.props import e1_targets

mods = sorted({m for mods_, _ in e1_targets.E1.values() for m in mods_})
for m in mods:
    importlib.import_module(m)
src = eng.Source(core.REPO)
out = {}
for q, c in sorted({**eng.REGISTRY, **eng.LEMMAS}.items()):
    try:
        fdef, sha, span = src.find(c.file, c.qual)
    except Exception as e:
        print("skip", q, e)
        continue
    out[c.qual] = eng.local_order(fdef)
p = os.path.join(os.path.dirname(os.path.dirname(os.path.abspath(__file__))), "contracts", "locals_baseline.json")
json.dump(out, open(p, "w"), indent=1, sort_keys=True)
print(len(out), "functions ->", p)
