#!/usr/bin/env python3
"""print source minus docstrings with original line numbers. usage: nodoc.py file [start end]"""
import ast, sys
src=open(sys.argv[1]).read(); lines=src.splitlines()
tree=ast.parse(src); skip=set()
for n in ast.walk(tree):
    if isinstance(n,(ast.FunctionDef,ast.ClassDef,ast.Module,ast.AsyncFunctionDef)):
        b=n.body
        if b and isinstance(b[0],ast.Expr) and isinstance(b[0].value,ast.Constant) and isinstance(b[0].value.value,str):
            for i in range(b[0].lineno,b[0].end_lineno+1): skip.add(i)
lo=int(sys.argv[2]) if len(sys.argv)>2 else 1; hi=int(sys.argv[3]) if len(sys.argv)>3 else len(lines)
for i,l in enumerate(lines,1):
    if lo<=i<=hi and i not in skip and l.strip(): print(f"{i:5d} {l}")
