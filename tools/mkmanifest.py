#!/usr/bin/env python3
"""Regenerates MANIFEST.json from vf/props/*.py metadata + tools/manifest_meta.json (kept valid at all times)."""
import json, os, sys, importlib, re
sys.path.insert(0, '/verif')
props = [json.loads(l) for l in open('/verif/properties.jsonl')]
base = json.load(open('/root/.vp/BASELINE.json'))
meta = json.load(open('/verif/tools/manifest_meta.json'))
checks, na = [], []
for p in props:
    pid = p['id']
    m = meta.get(pid)
    if pid in meta.get("_pending", []):
        na.append({"property_id": pid, "reason": "check built but its run on the unchanged tree is still being triaged in this session (temporarily unclaimed)"})
        continue
    if not m or not os.path.exists(f'/verif/vf/props/{pid}.py') or m.get('not_applicable'):
        na.append({"property_id": pid, "reason": (m or {}).get('not_applicable', "check not built yet (work in progress)")})
        continue
    checks.append({
        "property_id": pid,
        "quick_cmd": f"./check {pid} --tier quick",
        "thorough_cmd": f"./check {pid} --tier thorough",
        "evidence_file": f"evidence/{pid}.json",
        "replay_cmd_template": f"./check {pid} --replay {{path}}",
        "engine": m.get("engine", "pyvc+enumrun"),
        "level_claimed": {"category": m["category"], "text": m["text"], "design_ref": f"DESIGN.md §6 {pid}"},
        "level_note": m["note"],
        "technique": m["technique"],
    })
fix_commits = meta.get("_fix_commits", [])
man = {
    "version": 1,
    "setup_cmd": "./check --setup",
    "hooks": {"guard": "PGMPY_VERIF", "enable": "none needed: contracts are sidecar files under /verif/contracts, /repo carries no hooks (only unguarded fix: commits)",
              "baseline_off_cmd": base["cmd"].replace("--junitxml=<file>", "").strip(), "source_commits": [], "add_only": True},
    "engines": [
        {"name": "pyvc", "path": "vf/pyvc", "serves_properties": meta.get("_e1_props", []),
         "kind_free_text": "E1: contract-based deductive verification - VCs generated from the real source (ast) against sidecar contracts, discharged by z3 (unbounded)"},
        {"name": "enumrun", "path": "vf/bounded", "serves_properties": [c["property_id"] for c in checks],
         "kind_free_text": "E3/E2: bounded stand-in - real API executed against independent spec oracles on enumerated/seeded inputs; replay path for violations"},
    ],
    "checks": checks,
    "notes": meta.get("_notes", ""),
    "not_applicable": na,
}
json.dump(man, open('/verif/MANIFEST.json', 'w'), indent=1)
import jsonschema
jsonschema.validate(man, json.load(open('/root/.vp/MANIFEST.schema.json')))
print("manifest ok:", len(checks), "checks;", len(na), "not applicable")
