#!/bin/bash
# runs the quick check of every claimed property on /repo, validates the evidence; prints a summary
cd /verif
PROPS=${@:-$(.ov/bin/python -c "import json;print(' '.join(c['property_id'] for c in json.load(open('MANIFEST.json'))['checks']))")}
for p in $PROPS; do
  t0=$(date +%s); ./check $p > /tmp/regen_$p.out 2>&1; rc=$?; t1=$(date +%s)
  v=$(.ov/bin/python - <<PY
import json, jsonschema
try:
    ev=json.load(open('/verif/evidence/$p.json')); jsonschema.validate(ev, json.load(open('/root/.vp/EVIDENCE.schema.json')))
    c=ev['coverage']; print(f"evidence ok level={ev['level']} obligations={c['obligations']}/{c['discharged']} cases={c['evaluations']}")
except Exception as e: print("EVIDENCE INVALID", str(e)[:200])
PY
)
  echo "$p rc=$rc $((t1-t0))s $v $(grep -c '^KNOWN-FINDING' /tmp/regen_$p.out) known; $(grep -c '^VIOLATION' /tmp/regen_$p.out) viol"
done
