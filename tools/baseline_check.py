#!/usr/bin/env python3
"""Runs the pinned test command (BASELINE.json) on /repo and reports stable_pass tests that no longer pass."""
import json, subprocess, sys, xml.etree.ElementTree as ET, os, time
b = json.load(open('/root/.vp/BASELINE.json'))
out = sys.argv[1] if len(sys.argv) > 1 else '/dev/shm/baseline.junit.xml'
cmd = b['cmd'].replace('<file>', out)
t0 = time.time()
subprocess.call(cmd, shell=True, stdout=open(out + '.log', 'w'), stderr=subprocess.STDOUT)
passed = set()
for tc in ET.parse(out).getroot().iter('testcase'):
    if not any(ch.tag in ('failure', 'error', 'skipped') for ch in tc):
        passed.add(f"{tc.get('classname')}::{tc.get('name')}")
missing = sorted(set(b['stable_pass']) - passed)
print(f"ran in {time.time()-t0:.0f}s; passed {len(passed)}; stable_pass {len(b['stable_pass'])}; stable tests not passing now: {len(missing)}")
for m in missing: print("  LOST", m)
newly = sorted(passed - set(b['stable_pass']))
print("newly passing:", len(newly))
