#!/bin/bash
# usage: mut.sh <file-rel> <python-regex-from> <to> -- <command...>   (runs command with VERIF_REPO=scratch copy)
set -e
S=/dev/shm/verif-scratch-$$
mkdir -p $S && rsync -a --exclude .git --exclude docs --exclude examples /repo/ $S/
F="$1"; FROM="$2"; TO="$3"; shift 4
python3 - "$S/$F" "$FROM" "$TO" <<'PY'
import sys,re
p,fr,to=sys.argv[1:4]
s=open(p).read()
n=len(re.findall(fr,s))
if n!=1: print(f"pattern matched {n} times",file=sys.stderr); sys.exit(9)
open(p,'w').write(re.sub(fr,to,s))
PY
set +e
VERIF_REPO=$S "$@"; rc=$?
rm -rf $S
exit $rc
