#!/usr/bin/env python3
"""keepseed.py <Cxx> <variant dir> <seed id> <needs> <caught_by> [--strengthened note]
copies a confirmed seeded change into /verif/seeded/<seed id>/ with meta.json"""
import json, os, shutil, sys, subprocess
prop, src, sid, needs, caught = sys.argv[1:6]
note = sys.argv[6] if len(sys.argv) > 6 else ""
dst = f"/verif/seeded/{sid}"
os.makedirs(dst, exist_ok=True)
for f in ("patch.diff", "demo.py", "notes.md"):
    if os.path.exists(os.path.join(src, f)):
        shutil.copy(os.path.join(src, f), dst)
head = subprocess.check_output(["git", "-C", "/repo", "log", "--format=%h", "-1"]).decode().strip()
files = [l.split()[-1][2:] for l in open(os.path.join(dst, "patch.diff")) if l.startswith("+++ b/")]
meta = {"property": prop, "seed": sid, "files": files, "repo_head_when_confirmed": head,
        "needs_to_manifest": needs,
        "confirmed": "demo.py exits 0 on the unchanged tree and non-zero with patch.diff applied (PYTHONPATH=/repo /venv/bin/python demo.py); "
                     "the author (a fresh sub-agent given only the property text) ran the test files of the touched code before/after (see notes.md)",
        "ran": f"tools/seedtest.sh {prop} {src}  (git -C /repo apply patch.diff; ./check {prop}; git -C /repo checkout -- .)",
        "detected_by": caught, "strengthening": note}
json.dump(meta, open(os.path.join(dst, "meta.json"), "w"), indent=1)
print("kept", dst)
