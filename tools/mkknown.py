#!/usr/bin/env python3
"""Builds known_findings.json from the tables below (edited by hand when a finding is fixed or found)."""
import json, subprocess
FIXED = [  # (id, property, commit, key regex, what failed)
 ("F01","C08","b38f7bd",r"naive_bayes:NaiveBayes\.active_trail_nodes:result","NaiveBayes d-separation helpers built set(name) and split multi-character node names"),
 ("F03","C18","f092f9a",r"is_iequivalent:false-positive|E1:DAG\.is_iequivalent.*","DAG.is_iequivalent compared unshielded parent pairs without the collider (A->C<-B,D->A,D->B vs A->D<-B,C->A,C->B reported equivalent)"),
 ("F04","C05","c6624f6",r"cpd:reorder_parents:inplace:state_names","TabularCPD.reorder_parents(inplace=True) dropped state names"),
 ("F05","C04","1703233",r"binary:divide:empty-scope:raised-TypeError","DiscreteFactor.divide raised TypeError for operands with empty scope"),
 ("F06","C09","0e1da80",r"bif_names:BIFReader:keyword-in-.*","BIFReader block splitting broke on names containing 'variable'/'probability'"),
 ("F07","C09","2da7f25",r"uai_exponent:UAIReader:exponent-notation","UAIReader rejected / misread exponent notation"),
 ("F08","C09","c0728cd",r"uai_single_value:UAIReader:single-value-table","UAIReader failed on single-value tables"),
 ("F09","C09","21599ef",r"uai_bn_multiparent:UAIReader:parent-order-from-set","UAIReader took the parent order from a set of edges (hash-seed dependent tables)"),
 ("F10","C09","4ce757a",r"uai_mn_isolated:UAIReader:markov-isolated-node","UAIReader lost Markov variables that occur in no edge"),
 ("F11","C09","f207121",r"large_table:NETWriter:large-table-elided","NETWriter wrote '...' for tables > 1000 entries"),
 ("F12","C09","2ed4517",r"purity:UAIWriter:reorders-model-cpds","UAIWriter sorted the model's own CPD list in place"),
 ("F13","C09","174ad33",r"purity:XMLBIFWriter:reorders-model-cpds","XMLBIFWriter sorted the model's own CPD list in place"),
 ("F14","C09","76431f0",r"purity:UAIWriter:str-not-idempotent","UAIWriter.__str__ appended to self.network on every call"),
 ("F15","C16","2ed4517",r"purity_writer_uai:UAIWriter:reorders-model-cpds","UAIWriter sorted the model's own CPD list in place"),
 ("F16","C16","174ad33",r"purity_writer_xmlbif:XMLBIFWriter:reorders-model-cpds","XMLBIFWriter sorted the model's own CPD list in place"),
 ("F17","C16","76431f0",r"purity_writer_uai:UAIWriter\.__str__:not-repeatable","UAIWriter.__str__ not repeatable"),
 ("F18","C15","2b67037",r"(copy_separation|repro):BayesianNetwork\.(copy|do|get_random_cpds):latents-aliased","BayesianNetwork.copy shared the latents set with the original"),
 ("F19","C03","f97fdf7",r"factor_assignment:assignment:negative-index-accepted","DiscreteFactor.assignment accepted negative indices"),
 ("F20","C16","50fb3ca",r"purity_hillclimb:HillClimbSearch\.estimate:mutates-start_dag","HillClimbSearch.estimate mutated the caller's start_dag"),
 ("F21","C15","d510155",r"repro:JunctionTree\.add_edge:self-loop-accepted","JunctionTree.add_edge accepted a self loop"),
 ("F22","C20","7ba352e",r"predict:predict:submatrix|predict:submatrix","LinearGaussianBayesianNetwork.predict used cov[idx, idx] (diagonal) instead of the sub-matrix"),
 ("F23","C03","9fb7e6e",r"bp_map:BP\.map_query(:virtual)?:state-name(:.*)?","clique potentials without state names: BP returned indices / raised KeyError"),
 ("F24","C02","9fb7e6e",r".*:to_junction_tree:potential-state-names","clique potentials built without state names"),
 ("F25","C14","9fb7e6e",r"jt_state_names:to_junction_tree:state-names","clique potentials built without state names"),
 ("F26","C16","f2f36a3",r"repr:VariableElimination\.(map_query|query\(MinFill\)):(all|rename_tuple):raised:ValueError","remove_cpds only resolved str/int node names (tuple-named nodes)"),
 ("F27","C16","d3508d0",r"history_(ve|bp):engine-history:virtual_evidence","virtual evidence permanently rebound the inference engine to the augmented model"),
 ("F28","C10","47e31b5",r".*K2Score\.local_score:unobserved-configs","K2 score ignored unobserved parent configurations (off by (q-q_obs)*lgamma(r))"),
 ("F29","C10","cd73cba",r"network_score:ScoreCache\.score:structure-prior","ScoreCache dropped the base scorer's structure prior"),
 ("F30","C11","cd73cba",r"exhaustive:ExhaustiveSearch\.(estimate:not-maximal|all_scores:score):bds-prior","ScoreCache dropped the BDs structure prior (ExhaustiveSearch not maximal)"),
 ("F31","C06","04fa860",r".*:isolated-nodes","BayesianEstimator / DAG.fit lost nodes without edges"),
 ("F32","C06","d91bb59",r"dag_fit:DAG\.fit:isolated-nodes","DAG.fit dropped nodes without edges"),
 ("F33","C06","322660b",r"em:EM\.get_parameters:max_iter-0","EM.get_parameters(max_iter=0) raised UnboundLocalError"),
 ("F34","C10","0360a91",r".*BDeuScore(\.local_score)?:unobserved-child-state","BDeu miscounted cells dropped by state_counts(reindex=False)"),
 ("F35","C12","a612dd7",r".*skeleton_to_pdag:orientation.*","PC orientation rules 1 and 3 tested adjacency in one direction / not at all (cyclic PDAG for A->D,B->C,B->D,D->C)"),
 ("F36","C12","3f20b11",r"isolated_nodes:estimate:nodes-dropped","PC.skeleton_to_pdag dropped isolated variables"),
 ("F37","C12","d62b1f9",r"to_dag.*:to_dag:.*(cyclic|new-vstructure).*","PDAG.to_dag tested adjacency of neighbours in one direction only"),
 ("F38","C12","fa8e87c",r"pc_get_independencies:independence_match:not-entailed","independence_match only found literally listed assertions"),
 ("F39","C15","ef5235b",r"repro:BayesianNetwork\.remove_node:raised-but-mutated:ValueError","remove_node raised half-way and left CPDs changed"),
 ("F40","C15","33956fa",r"repro:BayesianNetwork\.do:raised-but-mutated:AttributeError","do() crashed after removing edges when a CPD was missing"),
 ("F41","C06","3302e4b",r"dag_fit:fit:pandas-str-dtype","preprocess_data rejected pandas string dtype columns"),
 ("F42","C06","2e530bc",r"fit_update:.*parent-order","fit_update misaligned old CPD columns with the estimator's sorted-parent order"),
 ("F43","C16","bc2d64e",r"purity_writer_xmlbif:XMLBIFWriter\.__str__:not-repeatable","XMLBIFWriter.__str__ re-indented its tree on every call (two str() calls differ)"),
 ("F44","C19","0bfa5a6",r"dof0:pvalue-nan","power_divergence p-value NaN when pooled dof = 0"),
 ("F45","C19","d03f13e",r"unused_category:raises","power_divergence raised for categorical columns with an unobserved level"),
 ("F46","C19","f62d3f3",r"pearsonr:shift-invariance","partial correlation regressed without intercept (not shift invariant)"),
 ("F47","C20","8154d82",r"gaussian_product_inplace:noop","GaussianDistribution.product(inplace=True) was a no-op"),
 ("F48","C14","6b5deaa",r"mn_duplicate_factors:to_junction_tree:duplicate-factors","to_junction_tree used equal factors only once (partition function 30 -> 10)"),
 ("F49","C02","6b5deaa",r".*:to_junction_tree:equal-factors-used-once","to_junction_tree used equal factors only once"),
 ("F50","C14","6ff9cce",r"mn_triangulate_disconnected:triangulate:isolated-node:raised","triangulate raised for non-chordal graphs with an isolated node"),
 ("F51","C07","c9a5d06",r"gibbs_api:GibbsSampling\.sample:seed-not-reproducible:no-start-state","GibbsSampling.sample drew the start state before seeding"),
 ("F52","C07","77676d6",r"gibbs_api:GibbsSampling\.generate_sample:latents-not-dropped","GibbsSampling.generate_sample did not drop latents"),
 ("F53","C07","2c3ebff",r"simulate:evidence-argument-mutated","simulate wrote '__X' entries into the caller's evidence dict"),
 ("F54","C07","077ace9",r"simulate:auxiliary-columns-returned","simulate returned the auxiliary '__X' columns"),
 ("F55","C07","fb683e6",r"rej_contract:rejection_sample:partial_samples:no-evidence:ignored","rejection_sample ignored partial_samples without evidence"),
 ("F56","C07","652f3ab",r"mathext:sample_discrete\[2d\]:inexact-row-sum:.*","sample_discrete (2-D weights) lost rows whose weights were adjusted"),
 ("F57","C15","7fdf77a",r"copy_separation:ClusterGraph\.copy:(content-nodes|raised:ValueError)","ClusterGraph.copy lost isolated cliques / raised"),
 ("F58","C15","1408aa6",r"repro:DynamicBayesianNetwork\.add_cpds:duplicate-cpd","DBN.add_cpds appended a duplicate CPD instead of replacing"),
 ("F59","C15","7153c3b",r"repro:DynamicBayesianNetwork\.copy:raised:ValueError","DBN.get_cpds/copy raised for a variable present in one slice only"),
 ("F60","C17","598406b",r".*initialize_initial_state:(root-card-not-2.*|copied:parent-order.*|copied:state-names)","initialize_initial_state hard-coded cardinality 2, misordered parents, dropped state names"),
 ("F62","C13","30969a5",r"query_evidence:query:evidence-outside-adjustment-set","CausalInference.query dropped evidence outside the adjustment set from the inner query"),
 ("F63","C13","e557fb6",r"minimal_adjustment:get_minimal_adjustment_set:descendant-of-treatment","get_minimal_adjustment_set could return a descendant of the treatment"),
 ("F61","C13","12577b6",r"query_multi_do:query:multi-do:parent-child","CausalInference.query adjusted for a variable that is itself intervened on"),
 ("F66","C08","b49bb3e",r"E1:DAG\.active_trail_nodes\[variables=(single|list),observed=single\]/loop[01]\.init#0|active_trails:(is_dconnected:bare-observed|active_trail_nodes:multi-start)","active_trail_nodes(start, observed=n) ignored a single observed node n with a falsy label (node 0, ''): `if observed:`; found by E1 (z3 refutation of the loop-init obligations once label truthiness was made symbolic), replayed: DAG([(1,0),(0,2)]).active_trail_nodes(1, observed=0)"),
 ("F64","C01","4590d99",r"ve_virtual:raised:TypeError","virtual evidence on a variable with a non-string label (e.g. integer node names) raised TypeError: the auxiliary node name was built as '__' + label"),
 ("F65","C01","1747c08",r"bn_api:raised:TypeError","predict_probability on variables with non-string labels raised TypeError: the column name was built as label + '_' + state"),
]
KNOWN = [  # (id, property, key regex, what fails) - still present in /repo; see DESIGN.md §12 for why each is not repaired
 ("K05","C02",r"fg_ve:VariableElimination\.query:fg:raised:AttributeError","VariableElimination(FactorGraph).query raises AttributeError (FactorGraph has no `states`); needs a new attribute on FactorGraph - not a small repair"),
 ("K06","C07",r".*:int-names-vs-numbers","integer state names that are not 0..k-1 (e.g. [1,2,3]) are confused with state numbers in _reduce_marg / DiscreteFactor.reduce: forward, likelihood-weighted, rejection, simulate and Gibbs use wrong CPD columns; repair touches the documented 'fall back to state numbers' behaviour of reduce()"),
 ("K07","C07",r"fwd_contract:forward_sample:partial_samples:named-states:.*","forward_sample(partial_samples=frame of state NAMES) raises TypeError / returns NaN; names would have to be converted on entry (design decision: the API documents state numbers nowhere)"),
 ("K08","C07",r"gibbs_api:GibbsSampling\.sample:state-numbers-not-names","GibbsSampling.sample returns state numbers, not state names (probably by design; contradicts 'every sampled value is a valid state name')"),
 ("K09","C07",r"simulate_do_impossible:simulate:do-impossible-state:.*","simulate(do={X: x}) with x of probability 0 in every column never terminates (rejection loop)"),
 ("K10","C13",r"query_multi_do:query:multi-do:default-adjustment","CausalInference.query with several do variables: the default adjustment set (parents) can contain descendants of another do variable - wrong answer; no small repair"),
 ("K11","C13",r"minimal_adjustment:get_minimal_adjustment_set:latent:none-but-exists","get_minimal_adjustment_set returns None although a valid set exists when latents are present (minimal_dseparator gives up)"),
 ("K12","C13",r"simulate_do_unreachable_state:simulate:unreachable-do-state:no-termination","simulate(do=...) to a state no parent configuration produces loops forever"),
 ("K15","C13",r"adjustment_multi:is_valid_adjustment_set:pairs-zipped","is_valid_adjustment_set pairs treatments and outcomes with zip() instead of all pairs; the stable test TestAdjustmentSet::test_is_valid_adjustment_set asserts True for a set that is invalid under the all-pairs reading, so no correct fix passes the unedited suite"),
 ("K16","C14",r"mn_to_factor_graph:to_factor_graph:(same-scope-factors|target-fails-check_model)","MarkovNetwork.to_factor_graph names factor nodes by scope (two factors on one scope collide) and the result fails FactorGraph.check_model; needs factor objects as nodes - API-visible change"),
 ("K17","C15",r"repro:BayesianNetwork\.remove_nodes?(_from)?:dangling-cpd-of-non-child","remove_node leaves the removed variable in the scope of a CPD whose evidence lists it although it is not a graph child (model was already inconsistent)"),
 ("K18","C15",r"copy_separation:FactorGraph\.copy:factor_nodes-aliased","FactorGraph.copy: the copy's factor nodes are the original's factor objects"),
 ("K19","C15",r"repro:DynamicBayesianNetwork\.(remove_node:.*|add_edge:cycle-accepted:after-remove_node|copy:content-nodes:after-remove_node)","DynamicBayesianNetwork inherits networkx remove_node: CPDs and the two-slice structure are left inconsistent (later add_edge accepts a cycle, copy differs); needs a new method"),
 ("K20","C17",r"(constant_bn|constant_bn_named|init_state|init_state_named):add_edge:missing-slice-node","DBN.add_edge omits (u,1) for a variable that is only the source of inter-slice edges"),
 ("K21","C17",r"(constant_bn|constant_bn_named):get_constant_bn:(edgeless-node:raised:ValueError|state-names)","get_constant_bn drops state names and fails when a slice node has no incident edge"),
 ("K22","C17",r"inference_classes:DBNInference\.init:no-intra-edge-variable:raised:ValueError","DBNInference() raises for a variable without intra-slice edges (plain Markov chain)"),
 ("K23","C17",r"inference_classes:(query|forward_inference):cross-inter:.*","inter-slice edge u->v with u != v: DBN inference raises or gives wrong marginals"),
 ("K24","C17",r"inference_classes:query:interface-evidence:.*","smoothing with evidence on an interface node is wrong (backward pass drops it)"),
 ("K25","C17",r"(inference_classes|inference_named):result-state-names","DBN inference result factors carry no state names"),
 ("K26","C17",r"inference_multi:(query|forward_inference):multi-slice:values","variables of several slices in one request give wrong marginals; the stable test test_backward_inf_multiple_variables_with_evidence pins a wrong value, so no correct fix passes the unedited suite"),
 ("K27","C20",r"canonical_marginalize_g:uninverted-Kjj","CanonicalDistribution.marginalize: constant g uses h_j' K_jj h_j instead of h_j' K_jj^-1 h_j; stable tests (test_Canonical_Factor test_marginalize / test_copy) pin the wrong value -0.5787 (correct -0.6742)"),
 ("K01","C18",r"closure:unsound-contraction|closure_bounds:.*|E1:Independencies\.closure\.<locals>\.sg3\[any\]/post\.contraction-sound#\d+",
  "Independencies.closure: contraction rule sg3 accepts Y,Z strictly inside the conditioning set without Y u Z == it (from X_|_W|{A,B,C}, X_|_A|B derives X_|_{W,A}|B); the stable test test_closure pins the resulting count (78), so no correct fix passes the unedited suite"),
 ("K02","C18",r"closure:incomplete:contraction-empty-context","Independencies.closure misses contraction with empty context (X_|_Y, X_|_W|Y => X_|_{Y,W}); same line as K01, pinned by test_closure"),
 ("K03","C18",r"minimal_imap:not-an-imap","JointProbabilityDistribution.minimal_imap(['a','b']) of a dependent pair returns a graph without edges (adds no parents when no proper subset works; pairwise tests); needs a rewrite (~20 lines)"),
 ("K04","C10",r".*BDsScore\.local_score:unobserved-(configs|child-state)|structure_score:bds.*|.*BDsScore.*:value.*","BDsScore uses beta = ess/(r*q) instead of ess/(r*q_observed) and subtracts an extra adjustment; stable test TestBDsScore::test_score pins the current numbers"),
 ("K28","C08",r"independencies:non-string-labels:raised","DAG.get_independencies / local_independencies raise TypeError / ValueError on DAGs whose node labels are not strings (e.g. integers, 0 being falsy): IndependenceAssertion is documented for str names only (`_return_list_if_not_collection`, `if not event1`); accepting arbitrary hashable labels changes that class's documented interface (tuples are valid labels elsewhere) - not a small repair"),
]
def main():
    head = subprocess.check_output(["git","-C","/repo","log","--format=%h","fe1f674..HEAD"]).decode().split()
    out = {"comment": "Committed list of genuine defects found by the checks. kind=known: still present in /repo; a violation whose key fully matches `match` is printed as KNOWN-FINDING and does not fail the run (any other violation of the same property does). kind=fixed: repaired by the named 'fix:' commit in /repo; suppresses nothing. Never written at run time; generated by tools/mkknown.py.",
           "findings": []}
    for i,p,c,m,w in FIXED:
        assert c in head, c
        out["findings"].append({"id":i,"property":p,"kind":"fixed","commit":c,"match":m,"what":w,"line":f"fixed: property={p} {c} {w}"})
    import importlib.util, os
    extra = "/verif/tools/known_extra.json"
    known = list(KNOWN)
    if os.path.exists(extra):
        known += [tuple(x) for x in json.load(open(extra))]
    for i,p,m,w in known:
        out["findings"].append({"id":i,"property":p,"kind":"known","match":m,"what":w})
    json.dump(out, open("/verif/known_findings.json","w"), indent=1)
    print(len(FIXED),"fixed;",len(known),"known")
main()
