#!/usr/bin/env python3
"""CPython cross-check of the E1 engine and its library models:  .ov/bin/python tools/crosscheck.py [-k name]

Every function of vf/pyvc/xcheck/snippets.py is run in CPython (real networkx / pgmpy / itertools / collections) and then
executed symbolically on the same AST; the executor should PROVE `result == value returned by CPython` (lists compared by
membership, the executor's abstraction; `abstracted` = it leaves the value open, e.g. sorted() uses an uninterpreted order and
reachability has no built-in induction) and must NEVER prove a different value: `result != cpython value` or `result ==
perturbed value` being provable is reported as UNSOUND, as is a provably contradictory path condition.  A library model that deviates from
the real function, or an unsound rule of the executor, shows up as a mismatch.  Development aid + part of `regen_all`."""
import importlib, inspect, sys, time
sys.path.insert(0, "/verif")
import z3
from vf.pyvc import engine as eng
from vf.pyvc.engine import Atom, B, I, Coll, Contract, Scalar, TupleV, Closure, NoneV, fresh, str_const, deq, is_tuple_sort, solve
from vf.pyvc.lib import Lib
from contracts.common import CLASSES

REL = "vf/pyvc/xcheck/snippets.py"


def enc(v, sort):
    """z3 term of a python value at a given sort"""
    if isinstance(v, bool):
        return z3.BoolVal(v)
    if isinstance(v, int):
        return z3.IntVal(v)
    if isinstance(v, str):
        return str_const(v)
    if isinstance(v, tuple) and is_tuple_sort(sort):
        c = sort.constructor(0)
        return c(*[enc(x, c.domain(i)) for i, x in enumerate(v)])
    if isinstance(v, (set, frozenset, list)) and isinstance(sort, z3.ArraySortRef):
        x = fresh("e", sort.domain())
        return z3.Lambda([x], z3.Or(*[deq(x, enc(e, sort.domain())) for e in v]) if v else z3.BoolVal(False))
    raise TypeError(f"cannot encode {v!r} at {sort}")


def same(ex, st, res, val):
    """formula: the symbolic result equals the python value (at the executor's abstraction)"""
    if isinstance(val, bool):
        return ex.truth_z(st, res) == z3.BoolVal(val) if not (isinstance(res, Scalar) and res.z.sort() == B) else res.z == z3.BoolVal(val)
    if isinstance(val, int):
        return res.z == val
    if isinstance(val, str):
        return res.z == str_const(val)
    if isinstance(val, tuple):
        items = res.items if isinstance(res, (TupleV, Coll)) and res.items is not None else eng.val_of(res.z).items
        if len(items) != len(val):
            return z3.BoolVal(False)
        return z3.And(*[same(ex, st, r, v) for r, v in zip(items, val)])
    if isinstance(val, (set, frozenset, list)):
        c = ex.as_coll(res, st)
        if c.mem is None:
            return z3.BoolVal(len(val) == 0)
        x = fresh("x", c.esort)
        return z3.ForAll([x], c.mem[x] == (z3.Or(*[deq(x, enc(e, c.esort)) for e in val]) if val else z3.BoolVal(False)))
    raise TypeError(f"cannot compare with {val!r}")


def perturb(val):
    if isinstance(val, bool):
        return not val
    if isinstance(val, int):
        return val + 1
    if isinstance(val, str):
        return val + "?"
    if isinstance(val, tuple):
        return (perturb(val[0]),) + tuple(val[1:])
    if isinstance(val, (set, frozenset, list)):
        v = list(val)
        return type(val)(v[1:]) if v else None
    raise TypeError


class Snip(Contract):
    file = REL
    propagates = ("BayesianNetwork.add_edge",)   # exceptions of contracted callees reach the snippet's try/except

    def __init__(self, name, value, helpers):
        self.qual, self.value, self.helpers = name, value, helpers

    def variants(self, ex):
        env = {}
        for h in self.helpers:
            fdef, _, _ = ex.src.find(REL, h)
            env[h] = Closure(fdef, {}, h)
        yield "concrete", {}, {"env": env}

    def post(self, ex, st, args, old, result):
        out = {"equals-cpython": same(ex, st, result, self.value),
               "as-is.differs-from-cpython": z3.Not(same(ex, st, result, self.value))}   # must NOT be provable
        p = perturb(self.value)
        if p is not None:
            out["as-is.equals-perturbed"] = same(ex, st, result, p)   # must NOT be provable
        return out


def main():
    only = sys.argv[2] if len(sys.argv) > 2 and sys.argv[1] == "-k" else None
    importlib.import_module("contracts.c15")   # BayesianNetwork.add_edge etc. enter through their contracts, as in the proofs
    mod = importlib.import_module("vf.pyvc.xcheck.snippets")
    names = [n for n, f in inspect.getmembers(mod, inspect.isfunction) if f.__module__ == mod.__name__ and not n.startswith("_")]
    helpers = [n for n, f in inspect.getmembers(mod, inspect.isfunction) if f.__module__ == mod.__name__ and n.startswith("_") and n != "_powerset"]
    from vf import core

    class Src(eng.Source):       # the snippets live in /verif, everything they call in the repository under test
        def module(self, rel):
            if rel not in self.cache:
                import ast
                from pathlib import Path
                root = Path("/verif") if rel == REL else Path(core.REPO)
                txt = (root / rel).read_text()
                self.cache[rel] = (ast.parse(txt), txt)
            return self.cache[rel]
    src = Src("/verif")
    bad = 0
    t0 = time.time()
    for n in names:
        if only and only not in n:
            continue
        val = getattr(mod, n)()
        ex = eng.Executor(src, Lib(), CLASSES)
        try:
            ex.verify(Snip(n, val, helpers))
        except eng.Unsupported as e:
            print(f"SKIP  {n:28s} outside the modelled subset: {e}")
            continue
        except Exception as e:
            print(f"ERROR {n:28s} {type(e).__name__}: {e}")
            bad += 1
            continue
        verdicts = {}
        for ob in ex.obligations:
            v, backend, secs, model = solve(ob.hyps, ob.goal, 20000, want_model=False)
            verdicts[ob.name.split("/")[-1]] = v
        pos = [k for k in verdicts if "equals-cpython" in k]
        neg = [k for k in verdicts if "equals-perturbed" in k or "differs-from-cpython" in k]
        other = {k: v for k, v in verdicts.items() if k not in pos + neg and k != "pre.cover" and v != "discharged"}
        unsound = [k for k in neg if verdicts[k] == "discharged"] + ([] if verdicts.get("pre.cover") != "discharged" else ["pre.cover"])
        wrong = []
        incomplete = [k for k in pos if verdicts[k] != "discharged"] + list(other)   # value not determined at the executor's abstraction
        tag = "UNSOUND " if unsound else ("MISMATCH" if not pos else ("abstracted" if incomplete else "ok      "))
        print(f"{tag} {n:28s} cpython={val!r:.60}  " + ("" if tag.strip() == "ok" else f"verdicts={verdicts}"))
        bad += tag in ("UNSOUND ", "MISMATCH")
    print(f"crosscheck: {bad} mismatches, {time.time()-t0:.0f}s")
    return 1 if bad else 0


if __name__ == "__main__":
    sys.exit(main())
