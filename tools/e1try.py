"""dev helper: .ov/bin/python tools/e1try.py contracts.c08 DAG._get_ancestors_of [...]"""
import sys, time, importlib
sys.path.insert(0, '/verif')
from vf import core
from vf.pyvc import run, engine as eng
from contracts.common import CLASSES
mods=[sys.argv[1]]; quals=sys.argv[2:]
rep=core.Report("DEV","quick",0,"proof")
obs=run.verify_functions(rep,mods,quals,CLASSES)
for o in obs:
    print(f"{o.verdict:11s} {o.secs:6.2f}s {o.name}")
    if o.verdict=='refuted':
        print("   path:", o.trace[-10:]); print("   model:", (o.model or '')[:1500])
for u in rep.undecided: print("UNDECIDED", u)
for f in rep.faults: print("FAULT", f)
import json; print(json.dumps({k:{kk:vv for kk,vv in v.items() if kk in('status','obligations','discharged','variants','reason','locals_remapped')} for k,v in rep.functions.items()},indent=1)[:3000])
